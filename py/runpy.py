#!/usr/bin/env python3
"""CPython side: execute emitted modules and record what they do.

stdin : ndjson {"id":.., "py": "<module text>"}            (one per line)
stdout: ndjson {"id":.., "compiles": bool, "compile_error": str?, "stdout": [lines], "exc": "<class name>" | null,
                "exc_msg": str?, "timeout": bool}
Each module runs in a fresh namespace inside a forked child (so a crash or runaway loop cannot hurt the batch),
with a CPU/wall limit and a recursion limit.  Only the printed lines and the class of an uncaught exception are kept.
"""
import io
import json
import os
import signal
import sys
import traceback

LIMIT_S = float(os.environ.get("RUNPY_LIMIT", "5"))


def run_one(text):
    res = {"compiles": True, "stdout": [], "exc": None, "timeout": False}
    try:
        code = compile(text, "<emitted>", "exec")
    except BaseException as e:  # SyntaxError, ValueError (null bytes), RecursionError, MemoryError ...
        res["compiles"] = False
        res["compile_error"] = "%s: %s" % (type(e).__name__, e)
        return res
    r, w = os.pipe()
    pid = os.fork()
    if pid == 0:
        os.close(r)
        out = io.StringIO()
        sys.stdout = out
        sys.stderr = io.StringIO()
        sys.setrecursionlimit(400)
        signal.alarm(int(LIMIT_S) + 1)
        exc, msg = None, None
        try:
            exec(code, {"__name__": "__main__"})
        except SystemExit:
            exc = "SystemExit"
        except BaseException as e:
            exc, msg = type(e).__name__, str(e)[:200]
        payload = json.dumps({"stdout": out.getvalue().splitlines()[:2000], "exc": exc, "exc_msg": msg})
        try:
            os.write(w, payload.encode())
        finally:
            os._exit(0)
    os.close(w)
    chunks = []
    while True:
        b = os.read(r, 65536)
        if not b:
            break
        chunks.append(b)
    os.close(r)
    _, status = os.waitpid(pid, 0)
    data = b"".join(chunks)
    if data:
        try:
            res.update(json.loads(data.decode()))
            return res
        except ValueError:
            pass
    res["timeout"] = True
    res["exc"] = "Timeout" if os.WIFSIGNALED(status) and os.WTERMSIG(status) == signal.SIGALRM else "Crash"
    return res


def main():
    compile_only = "--compile-only" in sys.argv
    for line in sys.stdin:
        if not line.strip():
            continue
        rec = json.loads(line)
        if compile_only:
            res = {"compiles": True}
            try:
                compile(rec["py"], "<emitted>", "exec")
            except BaseException as e:
                res = {"compiles": False, "compile_error": "%s: %s" % (type(e).__name__, e)}
        else:
            res = run_one(rec["py"])
        res["id"] = rec["id"]
        sys.stdout.write(json.dumps(res) + "\n")
    sys.stdout.flush()


if __name__ == "__main__":
    main()
