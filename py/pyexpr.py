#!/usr/bin/env python3
"""CPython side of C10: parse printed expressions with ast.parse and map them back to the tree vocabulary of
spec/PyExpr.tla; also tokenise the text (for the drift comparison with the model's printer)."""
import ast
import io
import json
import sys
import tokenize

BIN = {ast.Add: "+", ast.Sub: "-", ast.Mult: "*", ast.Div: "/", ast.FloorDiv: "//", ast.Mod: "%", ast.Pow: "**",
       ast.BitOr: "|", ast.BitXor: "^", ast.BitAnd: "&", ast.LShift: "<<", ast.RShift: ">>"}
CMP = {ast.Lt: "<", ast.LtE: "<=", ast.Gt: ">", ast.GtE: ">=", ast.Eq: "==", ast.NotEq: "!=", ast.Is: "is",
       ast.IsNot: "is not", ast.In: "in", ast.NotIn: "not in"}
UN = {ast.Not: "not", ast.USub: "-", ast.UAdd: "+", ast.Invert: "~"}


def tree(n):
    if isinstance(n, ast.Name):
        return {"k": "id", "v": n.id}
    if isinstance(n, ast.Constant):
        if isinstance(n.value, bool) or n.value is None:
            return {"k": "id", "v": repr(n.value)}
        if isinstance(n.value, int):
            return {"k": "int", "v": str(n.value)}
        if isinstance(n.value, str):
            return {"k": "str", "v": n.value}
        return {"k": "const", "v": repr(n.value)}
    if isinstance(n, ast.BinOp):
        return {"k": "bin", "op": BIN[type(n.op)], "l": tree(n.left), "r": tree(n.right)}
    if isinstance(n, ast.BoolOp):
        op = "and" if isinstance(n.op, ast.And) else "or"
        acc = tree(n.values[0])
        for v in n.values[1:]:
            acc = {"k": "bin", "op": op, "l": acc, "r": tree(v)}
        return acc
    if isinstance(n, ast.Compare):
        if len(n.ops) == 1:
            return {"k": "bin", "op": CMP[type(n.ops[0])], "l": tree(n.left), "r": tree(n.comparators[0])}
        return {"k": "chain", "es": [tree(n.left)] + [tree(c) for c in n.comparators]}
    if isinstance(n, ast.UnaryOp):
        return {"k": "un", "op": UN[type(n.op)], "e": tree(n.operand)}
    if isinstance(n, ast.IfExp):
        return {"k": "tern", "c": tree(n.test), "t": tree(n.body), "e": tree(n.orelse)}
    if isinstance(n, ast.Lambda):
        return {"k": "lambda", "args": [a.arg for a in n.args.args], "b": tree(n.body)}
    if isinstance(n, ast.Call):
        return {"k": "call", "f": tree(n.func), "args": [tree(a) for a in n.args]}
    if isinstance(n, ast.Attribute):
        return {"k": "attr", "o": tree(n.value), "n": n.attr}
    if isinstance(n, ast.Subscript):
        return {"k": "index", "o": tree(n.value), "i": tree(n.slice)}
    if isinstance(n, ast.Tuple):
        return {"k": "tuple", "es": [tree(e) for e in n.elts]}
    if isinstance(n, ast.List):
        return {"k": "list", "es": [tree(e) for e in n.elts]}
    return {"k": "other", "v": type(n).__name__}


def toks(text):
    out = []
    for t in tokenize.generate_tokens(io.StringIO(text).readline):
        if t.type in (tokenize.NEWLINE, tokenize.NL, tokenize.ENDMARKER, tokenize.INDENT, tokenize.DEDENT):
            continue
        if t.string == "not" and out and out[-1] == "is":
            out[-1] = "is not"
        else:
            out.append(t.string)
    return out


def main():
    for line in sys.stdin:
        if not line.strip():
            continue
        r = json.loads(line)
        res = {"id": r["id"], "text": r.get("text", "")}
        if "text" not in r:
            res.update(ok=False, back={"k": "error", "why": "printer panicked: " + r.get("panic", "")}, toks=[])
        else:
            try:
                res.update(ok=True, back=tree(ast.parse(r["text"], mode="eval").body), toks=toks(r["text"]))
            except (SyntaxError, tokenize.TokenError, IndentationError) as e:
                res.update(ok=False, back={"k": "error", "why": "%s: %s" % (type(e).__name__, e)}, toks=[])
        sys.stdout.write(json.dumps(res) + "\n")


if __name__ == "__main__":
    main()
