#!/usr/bin/env python3
"""CPython side of C15 / C16 / C17: facts about an emitted module, read off its AST.

stdin : ndjson {"id":.., "py": text, "rename": {old: new}?}
stdout: ndjson {"id":.., "ok": bool, "error"?, "api": [...], "unbound": [names], "imports": [...], "import_problems": [...],
                "dump": digest of ast.dump (after applying `rename` to every identifier, if given)}
api entries (in source order):
  {"kind": "fun", "name", "params": [{"n", "default": bool, "star": bool}]}
  {"kind": "class", "name", "bases": [names], "methods": [{"name", "params": [...]}]}      (params without self)
"""
import ast
import builtins
import hashlib
import json
import symtable
import sys

BUILTINS = set(dir(builtins))


def params(fn, drop_self):
    a = fn.args
    out = []
    pos = a.posonlyargs + a.args
    nd = len(a.defaults)
    for i, p in enumerate(pos):
        out.append({"n": p.arg, "default": i >= len(pos) - nd, "star": False})
    if a.vararg:
        out.append({"n": a.vararg.arg, "default": False, "star": True})
    for p, d in zip(a.kwonlyargs, a.kw_defaults):
        out.append({"n": p.arg, "default": d is not None, "star": False})
    if drop_self and out and out[0]["n"] == "self":
        out = out[1:]
    return out


def base_name(b):
    if isinstance(b, ast.Name):
        return b.id
    if isinstance(b, ast.Attribute):
        return b.attr
    if isinstance(b, ast.Subscript):
        return base_name(b.value)
    return type(b).__name__


def api(tree):
    out = []
    for st in tree.body:
        if isinstance(st, ast.FunctionDef):
            out.append({"kind": "fun", "name": st.name, "params": params(st, False)})
        elif isinstance(st, ast.ClassDef):
            ms = [{"name": m.name, "params": params(m, True)} for m in st.body if isinstance(m, ast.FunctionDef)]
            out.append({"kind": "class", "name": st.name, "bases": [base_name(b) for b in st.bases], "methods": ms})
    return out


def unbound(text):
    """names that are read somewhere but bound nowhere at module level (and are not builtins)"""
    table = symtable.symtable(text, "<emitted>", "exec")
    top = {s.get_name() for s in table.get_symbols() if s.is_assigned() or s.is_imported() or s.is_namespace() or s.is_parameter()}
    out = set()

    def walk(t):
        for s in t.get_symbols():
            n = s.get_name()
            if not s.is_referenced():
                continue
            if t.get_type() == "module":
                if n not in top and n not in BUILTINS:
                    out.add(n)
            elif (s.is_global() or (s.is_free() and False)) and n not in top and n not in BUILTINS:
                out.add(n)
        for c in t.get_children():
            walk(c)

    walk(table)
    return sorted(out)


def imports(tree):
    """import statements with their position among the module's statements; problems: duplicate, not at the top, after first use"""
    stmts = tree.body
    seen, info, problems = {}, [], []
    first_non_import = None
    for i, st in enumerate(stmts):
        is_doc = i == 0 and isinstance(st, ast.Expr) and isinstance(st.value, ast.Constant) and isinstance(st.value.value, str)
        if isinstance(st, (ast.Import, ast.ImportFrom)):
            mod = st.module if isinstance(st, ast.ImportFrom) else None
            for a in st.names:
                key = (mod, a.name, a.asname)
                info.append({"module": mod, "name": a.name, "as": a.asname, "index": i})
                if key in seen:
                    problems.append("duplicate import of %s%s" % ((mod + ".") if mod else "", a.name))
                seen[key] = i
                info[-1]["late"] = first_non_import is not None
        elif not is_doc and first_non_import is None:
            first_non_import = i
    return info, problems


class Renamer(ast.NodeTransformer):
    def __init__(self, m):
        self.m = m

    def r(self, n):
        return self.m.get(n, n)

    def visit_Name(self, node):
        node.id = self.r(node.id)
        return node

    def visit_arg(self, node):
        node.arg = self.r(node.arg)
        if node.annotation:
            node.annotation = self.visit(node.annotation)
        return node

    def visit_FunctionDef(self, node):
        node.name = self.r(node.name)
        self.generic_visit(node)
        return node

    def visit_ClassDef(self, node):
        node.name = self.r(node.name)
        self.generic_visit(node)
        return node

    def visit_Attribute(self, node):
        node.attr = self.r(node.attr)
        self.generic_visit(node)
        return node

    def visit_keyword(self, node):
        if node.arg:
            node.arg = self.r(node.arg)
        self.generic_visit(node)
        return node

    def visit_ExceptHandler(self, node):
        if node.name:
            node.name = self.r(node.name)
        self.generic_visit(node)
        return node

    def visit_MatchAs(self, node):
        if node.name:
            node.name = self.r(node.name)
        self.generic_visit(node)
        return node


def main():
    for line in sys.stdin:
        if not line.strip():
            continue
        r = json.loads(line)
        res = {"id": r["id"]}
        try:
            tree = ast.parse(r["py"])
            res["ok"] = True
            res["api"] = api(tree)
            res["unbound"] = unbound(r["py"])
            res["imports"], res["import_problems"] = imports(tree)
            if r.get("rename"):
                tree = Renamer(r["rename"]).visit(tree)
            res["dump"] = hashlib.sha1(ast.dump(tree).encode()).hexdigest()[:16]
        except (SyntaxError, ValueError, RecursionError) as e:
            res.update(ok=False, error="%s: %s" % (type(e).__name__, e), api=[], unbound=[], imports=[], import_problems=[], dump="")
        sys.stdout.write(json.dumps(res) + "\n")


if __name__ == "__main__":
    main()
