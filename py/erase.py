#!/usr/bin/env python3
"""CPython side of C11: erase annotations from an emitted module and return a normalised dump.

stdin : ndjson {"id":.., "py": text}
stdout: ndjson {"id":.., "ok": bool, "erased": sha1 of ast.dump after erasure, "dump": the dump (only with --dump), "error": str?}
Erasure: variable / parameter / return annotations are removed; a bare annotated declaration (x: T) disappears; names that
a `from typing import ..` / `import typing` statement binds and that are no longer referenced afterwards are dropped from it.
"""
import ast
import hashlib
import json
import sys


class Erase(ast.NodeTransformer):
    def visit_AnnAssign(self, node):
        self.generic_visit(node)
        if node.value is None:
            return None
        return ast.copy_location(ast.Assign(targets=[node.target], value=node.value, type_comment=None), node)

    def visit_FunctionDef(self, node):
        self.generic_visit(node)
        node.returns = None
        for a in node.args.posonlyargs + node.args.args + node.args.kwonlyargs:
            a.annotation = None
        if node.args.vararg:
            node.args.vararg.annotation = None
        if node.args.kwarg:
            node.args.kwarg.annotation = None
        if not node.body:
            node.body = [ast.Pass()]
        return node

    def visit_Lambda(self, node):
        self.generic_visit(node)
        return node


def fix_empty_bodies(tree):
    for node in ast.walk(tree):
        for field in ("body", "orelse", "finalbody"):
            b = getattr(node, field, None)
            if isinstance(b, list) and not b and field == "body" and not isinstance(node, ast.Module):
                setattr(node, field, [ast.Pass()])


def erase(text):
    tree = ast.parse(text)
    tree = Erase().visit(tree)
    fix_empty_bodies(tree)
    used = {n.id for n in ast.walk(tree) if isinstance(n, ast.Name)} | {n.value.id for n in ast.walk(tree) if isinstance(n, ast.Attribute) and isinstance(n.value, ast.Name)}
    body = []
    for st in tree.body:
        if isinstance(st, ast.ImportFrom) and st.module == "typing":
            st.names = [a for a in st.names if (a.asname or a.name) in used]
            if not st.names:
                continue
        if isinstance(st, ast.Import):
            st.names = [a for a in st.names if not (a.name == "typing" and "typing" not in used)]
            if not st.names:
                continue
        body.append(st)
    tree.body = body
    return ast.dump(tree, include_attributes=False)


def main():
    want_dump = "--dump" in sys.argv
    for line in sys.stdin:
        if not line.strip():
            continue
        r = json.loads(line)
        try:
            d = erase(r["py"])
            res = {"id": r["id"], "ok": True, "erased": hashlib.sha1(d.encode()).hexdigest()}
            if want_dump:
                res["dump"] = d
        except (SyntaxError, ValueError, RecursionError) as e:
            res = {"id": r["id"], "ok": False, "erased": "unparsable", "error": "%s: %s" % (type(e).__name__, e)}
        sys.stdout.write(json.dumps(res) + "\n")


if __name__ == "__main__":
    main()
