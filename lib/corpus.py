"""Input corpora shared by the checks: repository samples and seeded token-level mutants."""
import glob
import os
import random
import re

from vlib import REPO

_TOKEN = re.compile(r'"(?:[^"\\\n]|\\.)*"|#[^\n]*|[A-Za-z_][A-Za-z_0-9]*|\d+(?:\.\d+)?|\r?\n[ ]*|[ ]+|:=|->|=>|<=|>=|!=|\.\.=?|::=?|//|<<|>>|.', re.S)

INSERTS = ["def", "fin", "if", "then", "else", "match", "=>", ":=", "(", ")", "[", "]", "{", "}", ",", ":", "->", "class",
           "self", "None", "1", "\"s\"", "\n", "\n    ", "handle", "raise", "for", "in", "do", "while", "return", ".", "?",
           "+", "-", "not", "and", "x", "Int", "|", "_", "..", "pass", "\"", "#", " "]


def repo_samples(kinds=("valid", "invalid")):
    """(relative path, text) of every *.mamba sample in the repository's test resources, sorted."""
    out = []
    base = os.path.join(REPO, "tests", "resource")
    for path in sorted(glob.glob(os.path.join(base, "**", "*.mamba"), recursive=True)):
        rel = os.path.relpath(path, base)
        if rel.split(os.sep)[0] not in kinds:
            continue
        try:
            out.append((rel, open(path, encoding="utf-8").read()))
        except UnicodeDecodeError:
            continue
    return out


def tokens(text):
    return _TOKEN.findall(text)


def mutate(text, rng, n=1):
    """n random token-level edits (delete / insert / replace / swap / duplicate)."""
    toks = tokens(text)
    ops = []
    for _ in range(n):
        if not toks:
            toks = [rng.choice(INSERTS)]
            continue
        i = rng.randrange(len(toks))
        op = rng.choice(["delete", "insert", "replace", "swap", "duplicate"])
        if op == "delete":
            del toks[i]
        elif op == "insert":
            toks.insert(i, rng.choice(INSERTS))
            if rng.random() < 0.7:
                toks.insert(i + 1, " ")
        elif op == "replace":
            toks[i] = rng.choice(INSERTS)
        elif op == "swap" and len(toks) > 1:
            j = rng.randrange(len(toks))
            toks[i], toks[j] = toks[j], toks[i]
        else:
            toks.insert(i, toks[i])
        ops.append(op)
    return "".join(toks), ops


def all_single_mutants(text, limit=None, rng=None):
    """Every single delete / duplicate / swap-with-next at every token position, plus seeded inserts/replaces."""
    toks = tokens(text)
    out = []
    for i in range(len(toks)):
        out.append(("delete@%d" % i, "".join(toks[:i] + toks[i + 1:])))
        out.append(("duplicate@%d" % i, "".join(toks[:i] + [toks[i]] + toks[i:])))
        if i + 1 < len(toks):
            out.append(("swap@%d" % i, "".join(toks[:i] + [toks[i + 1], toks[i]] + toks[i + 2:])))
        for ins in (INSERTS if rng is None else rng.sample(INSERTS, 4)):
            out.append(("insert@%d:%s" % (i, ins), "".join(toks[:i] + [ins, " "] + toks[i:])))
            out.append(("replace@%d:%s" % (i, ins), "".join(toks[:i] + [ins] + toks[i + 1:])))
    if limit is not None and len(out) > limit and rng is not None:
        out = rng.sample(out, limit)
    return out


def rng_for(name, seed):
    return random.Random("%s:%d" % (name, seed))
