"""Renaming of user-chosen names in abstract syntax (spec/MambaSyntax records as JSON)."""
import copy
import re

KEEP = {"self", "print", "Exception", "Int", "Str", "Bool", "Float", "Complex", "Any", "None", "True", "False", "List", "Set", "Dict", "Tuple",
        "__init__", "_", "range", "input"}
IDENT = re.compile(r"[A-Za-z_][A-Za-z_0-9]*")
OPS = {"+", "-", "*", "/", "//", "mod", "^", "=", "!=", "<", "<=", ">", ">="}


def collect(prog):
    """user names by kind, in order of first occurrence"""
    names = {"var": [], "fun": [], "class": [], "field": [], "method": []}

    def add(kind, n):
        n = n[4:] if n.startswith("fin ") else n
        if n not in KEEP and n not in OPS and n not in names[kind]:
            names[kind].append(n)

    def expr(e):
        for v in e.values():
            if isinstance(v, dict):
                expr(v)
            elif isinstance(v, list):
                for x in v:
                    if isinstance(x, dict):
                        expr(x)

    def stmt(s, in_class=False):
        k = s.get("k")
        if k == "def":
            add("field" if in_class else "var", s["n"])
        elif k == "deftup":
            for n in s["ns"]:
                add("var", n)
        elif k == "for":
            add("var", s["n"])
            block(s["b"])
        elif k == "fun":
            add("method" if s.get("self") else "fun", s["n"])
            for p in s["ps"]:
                add("var", p["n"])
            block(s["b"])
        elif k == "class":
            add("class", s["n"])
            for a in s["args"]:
                add("field" if a["isdef"] else "var", a["n"])
            for f in s["fields"]:
                stmt(f, True)
            for m in s["methods"]:
                stmt(m)
        elif k == "with":
            if s["a"]:
                add("var", s["a"])
            block(s["b"])
        elif k == "if":
            block(s["t"])
            block(s["e"])
        elif k == "while":
            block(s["b"])
        elif k == "match":
            for a in s["arms"]:
                if a["p"]["k"] == "var":
                    add("var", a["p"]["n"])
                block(a["b"])
        elif k == "handle":
            stmt(s["s"])
            for a in s["arms"]:
                if a["n"] != "_":
                    add("var", a["n"])
                block(a["b"])

    def block(b):
        for s in b:
            stmt(s)

    block(prog["stmts"])
    # a name used in two roles (a def class argument is a variable in parent arguments and a field) keeps one mapping
    return names


def apply(prog, m):
    """rename every occurrence of the names in m (dict old -> new)"""
    p = copy.deepcopy(prog)

    def r(n):
        if n.startswith("fin "):
            return "fin " + m.get(n[4:], n[4:])
        return m.get(n, n)

    def ty(t):
        return IDENT.sub(lambda mo: m.get(mo.group(0), mo.group(0)) if mo.group(0) not in KEEP else mo.group(0), t) if t else t

    def walk(x):
        if isinstance(x, list):
            for y in x:
                walk(y)
            return
        if not isinstance(x, dict):
            return
        k = x.get("k")
        if k == "raw":
            x["v"] = IDENT.sub(lambda mo: m.get(mo.group(0), mo.group(0)), x["v"])
        if k == "with":
            x["r"] = r(x["r"])
            if x["a"]:
                x["a"] = r(x["a"])
        for key in ("n", "f", "c", "m"):
            if key in x and isinstance(x[key], str):
                if key == "f" and k not in ("call", "fassign", "faug"):
                    continue
                x[key] = r(x[key])
        if "ns" in x:
            x["ns"] = [r(n) for n in x["ns"]]
        for key in ("ty", "ret"):
            if key in x and isinstance(x[key], str):
                x[key] = ty(x[key])
        if "raises" in x:
            x["raises"] = [r(n) for n in x["raises"]]
        for key, v in x.items():
            if isinstance(v, (dict, list)):
                walk(v)

    walk(p["stmts"])
    return p
