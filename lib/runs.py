"""Shared machinery of the executed-program checks (C01, C04, C11, ...): transpile programs with annotate off/on,
run the emitted Python under CPython (py/runpy.py), hand the recorded executions to spec/RunJudge.tla."""
import json
import os
import subprocess
import sys

import vlib


def run_python(modules, limit=5, compile_only=False):
    """modules: list of (key, text); returns {key: result} from py/runpy.py (parallel over chunks)."""
    if not modules:
        return {}
    n = min(vlib.NCPU, max(1, len(modules) // 50))
    chunks = [modules[i::n] for i in range(n)]
    procs = []
    env = dict(os.environ, RUNPY_LIMIT=str(limit))
    for ch in chunks:
        text = "".join(json.dumps({"id": k, "py": t}) + "\n" for k, t in ch)
        args = [sys.executable, os.path.join(vlib.PYDIR, "runpy.py")] + (["--compile-only"] if compile_only else [])
        p = subprocess.Popen(args, stdin=subprocess.PIPE, stdout=subprocess.PIPE, stderr=subprocess.PIPE, text=True, env=env)
        procs.append((p, text))
    out = {}
    # feed and collect (communicate sequentially; processes run concurrently once started)
    import threading
    results = [None] * len(procs)

    def work(i):
        p, text = procs[i]
        results[i] = p.communicate(text)

    ts = [threading.Thread(target=work, args=(i,)) for i in range(len(procs))]
    for t in ts:
        t.start()
    for t in ts:
        t.join()
    for (p, _), (so, se) in zip(procs, results):
        if p.returncode != 0:
            sys.stderr.write(se[-2000:])
            raise vlib.ToolError("py/runpy.py failed")
        for line in so.splitlines():
            if line.strip():
                r = json.loads(line)
                out[r["id"]] = r
    return out


def observe(vh, cases, execute=True):
    """cases need id + src.  Returns {id: {"off": {...}, "on": {...}}} with acc/compiles/out/exc/py/errs/panic."""
    recs = [{"id": c["id"], "src": c["src"], "annotate": [False, True]} for c in cases]
    tr = vlib.run_vh(vh, ["transpile"], records=recs)
    modules = []
    for o in tr:
        for mode, run in zip(("off", "on"), o["runs"]):
            if run["ok"]:
                modules.append(("%s/%s" % (o["id"], mode), run["out"][0]))
    pyres = run_python(modules, compile_only=not execute)
    obs = {}
    for o in tr:
        d = {}
        for mode, run in zip(("off", "on"), o["runs"]):
            r = pyres.get("%s/%s" % (o["id"], mode))
            d[mode] = {"acc": bool(run["ok"]), "panic": run.get("panic"), "errs": run["errs"], "py": run["out"][0] if run["ok"] else None,
                       "compiles": bool(r and r["compiles"]), "compile_error": (r or {}).get("compile_error"),
                       "out": (r or {}).get("stdout", []), "exc": (r or {}).get("exc") or "", "exc_msg": (r or {}).get("exc_msg")}
        obs[o["id"]] = d
    return obs


def judge_runs(chk, cases, obs, fuel=60):
    recs = []
    for c in cases:
        o = obs[c["id"]]
        recs.append({"id": c["id"], **({"expect": c["expect_out"]} if "expect_out" in c else {"prog": c["prog"]}),
                     "off": {k: o["off"][k] for k in ("acc", "compiles", "out", "exc")},
                     "on": {k: o["on"][k] for k in ("acc", "compiles", "out", "exc")}})
    verdicts, states, trans = vlib.judge("RunJudge", "RunJudge.cfg", recs, chunk=8000, xss="1g", constants={"Fuel": fuel})
    chk.states += states
    chk.transitions += trans
    chk.cmds.append("tlc RunJudge.tla (TRACE=<recorded executions of the emitted Python>)")
    if len(verdicts) != len(recs):
        raise vlib.ToolError("judge returned %d verdicts for %d observations" % (len(verdicts), len(recs)))
    return {v["id"]: v for v in verdicts}
