"""run py/pyapi.py over many modules in parallel"""
import json
import os
import subprocess
import sys
import threading

import vlib


def facts(modules):
    """modules: list of (key, text, rename or None) -> {key: facts}"""
    if not modules:
        return {}
    n = min(vlib.NCPU, max(1, len(modules) // 100))
    chunks = [modules[i::n] for i in range(n)]
    results = [None] * n

    def work(i):
        text = "".join(json.dumps({"id": k, "py": t, "rename": r}) + "\n" for k, t, r in chunks[i])
        p = subprocess.run([sys.executable, os.path.join(vlib.PYDIR, "pyapi.py")], input=text, capture_output=True, text=True)
        results[i] = (p.returncode, p.stdout, p.stderr)

    ts = [threading.Thread(target=work, args=(i,)) for i in range(n)]
    for t in ts:
        t.start()
    for t in ts:
        t.join()
    out = {}
    for rc, so, se in results:
        if rc != 0:
            sys.stderr.write(se[-2000:])
            raise vlib.ToolError("py/pyapi.py failed")
        for line in so.splitlines():
            if line.strip():
                r = json.loads(line)
                out[r["id"]] = r
    return out
