"""Render abstract syntax (spec/MambaSyntax.tla records, as JSON) to Mamba source text.

Deliberately dumb: one statement per line, 4-space blocks, every nested compound operand parenthesised, so that
the grouping of the abstract tree is explicit in the text.  Also returns, for each statement of the program, the
line it starts on (`lines` maps a statement path like "3.b.0" to a 1-based line number) so that probes can name
their fault line (C19).
"""

ATOMIC = {"int", "float", "str", "bool", "none", "var", "call", "mcall", "field", "new", "list", "index", "tuple", "fstr"}
OPS = {"+": "+", "-": "-", "*": "*", "//": "//", "mod": "mod", "^": "^", "<": "<", "<=": "<=", ">": ">", ">=": ">=",
       "=": "=", "!=": "!=", "and": "and", "or": "or", "/": "/", "is": "is", "isa": "isa"}


def expr(e):
    k = e["k"]
    if k == "int":
        return str(e["v"])
    if k == "float":
        return e["s"]
    if k == "str":
        return '"%s"' % e["s"]
    if k == "bool":
        return "True" if e["b"] else "False"
    if k == "none":
        return "None"
    if k == "var":
        return e["n"]
    if k == "bin":
        return "%s %s %s" % (operand(e["l"]), OPS[e["op"]], operand(e["r"]))
    if k == "not":
        return "not %s" % operand(e["e"])
    if k == "neg":
        return "-%s" % operand(e["e"])
    if k in ("listb", "setb"):
        it = e["it"]
        if it["k"] == "range":
            r = "%s %s %s" % (operand(it["a"]), "..=" if it["incl"] else "..", operand(it["b"]))
            if it["step"]["k"] != "absent":
                r += " .. " + operand(it["step"])
        else:
            r = expr(it)
        body = "%s | %s in %s%s" % (expr(e["e"]), e["n"], r, "".join(", " + expr(c) for c in e["cs"]))
        return ("[%s]" if k == "listb" else "{%s}") % body
    if k == "lam":
        return "\\%s => %s" % (", ".join(params(e["ps"])), expr(e["e"]))
    if k == "ife":
        return "if %s then %s else %s" % (operand(e["c"]), operand(e["t"]), operand(e["e"]))
    if k == "call":
        return "%s(%s)" % (e["f"], ", ".join(expr(a) for a in e["args"]))
    if k == "mcall":
        return "%s.%s(%s)" % (operand(e["o"]), e["m"], ", ".join(expr(a) for a in e["args"]))
    if k == "field":
        return "%s.%s" % (operand(e["o"]), e["n"])
    if k == "new":
        return "%s(%s)" % (e["c"], ", ".join(expr(a) for a in e["args"]))
    if k == "list":
        return "[%s]" % ", ".join(expr(a) for a in e["es"])
    if k == "set":
        return "{%s}" % ", ".join(expr(a) for a in e["es"])
    if k == "index":
        return "%s[%s]" % (operand(e["o"]), expr(e["i"]))
    if k == "tuple":
        return "(%s)" % ", ".join(expr(a) for a in e["es"])
    if k == "qdef":
        return "%s ? %s" % (operand(e["l"]), operand(e["r"]))
    if k == "fstr":
        return '"%s"' % "".join(p["s"] if p["k"] == "str" else "{%s}" % expr(p) for p in e["parts"])
    if k == "raw":
        return e["v"]
    raise ValueError("cannot render expression kind %r" % k)


INLINE_BODIES = False     # layout: a function / method body of one simple statement on the line of its header (`def f(x) => x + 1`)
EXTRA_PARENS = False      # C14: wrap every compound operand in one more (redundant) pair of parentheses


def operand(e):
    s = expr(e)
    if e["k"] in ATOMIC and not (e["k"] == "int" and e["v"] < 0):
        return s
    return "((" + s + "))" if EXTRA_PARENS else "(" + s + ")"


def params(ps):
    out = []
    for p in ps:
        s = ("vararg " if p.get("vararg") else "") + p["n"]
        if p.get("ty"):
            s += ": " + p["ty"]
        if p["d"]["k"] != "absent":
            s += " := " + expr(p["d"])
        out.append(s)
    return out


class R:
    def __init__(self):
        self.out = []
        self.lines = {}

    def emit(self, ind, text):
        self.out.append("    " * ind + text)

    def block(self, stmts, ind, path):
        if not stmts:
            self.emit(ind, "pass")
            return
        for j, s in enumerate(stmts):
            self.stmt(s, ind, "%s.%d" % (path, j) if path else str(j))

    def one_line(self, s):
        """the statement as the one-line body of a function (`def f(..) => stmt`), or None when it needs a block"""
        if s["k"] == "expr":
            return expr(s["e"])
        if s["k"] == "pass":
            return "pass"
        try:
            return self.simple(s)
        except ValueError:
            return None

    def simple(self, s):
        """text of a statement that fits on one line (used for the guarded statement of a handle)"""
        k = s["k"]
        if k == "def":
            t = "def %s%s" % ("" if s["mut"] else "fin ", s["n"])
            if s["ty"]:
                t += ": " + s["ty"]
            if s["e"]["k"] != "absent":
                t += " := " + expr(s["e"])
            return t
        if k == "deftup":
            return "def %s(%s) := %s" % ("" if s["mut"] else "fin ", ", ".join(s["ns"]), expr(s["e"]))
        if k == "assign":
            return "%s := %s" % (s["n"], expr(s["e"]))
        if k == "aug":
            return "%s %s= %s" % (s["n"], s["op"], expr(s["e"]))
        if k == "fassign":
            return "%s.%s := %s" % (operand(s["o"]), s["f"], expr(s["e"]))
        if k == "faug":
            return "%s.%s %s= %s" % (operand(s["o"]), s["f"], s["op"], expr(s["e"]))
        if k == "print":
            return "print(%s)" % expr(s["e"])
        if k == "ret":
            return "return %s" % expr(s["e"])
        if k == "ret0":
            return "return"
        if k == "expr":
            return expr(s["e"])
        if k == "raise":
            return "raise %s(%s)" % (s["c"], ", ".join(expr(a) for a in s["args"]))
        if k == "pass":
            return "pass"
        if k == "raw":
            return s["v"]
        return None

    def stmt(self, s, ind, path):
        self.lines[path] = len(self.out) + 1
        k = s["k"]
        if k in ("def", "deftup") and s["e"]["k"] == "ife" and s["e"].get("blk"):
            # block form of the conditional expression:  def z := if c then NL INDENT t NL DEDENT else NL INDENT e
            e = s["e"]
            head = self.simple(dict(s, e={"k": "var", "n": "\0"}))
            self.emit(ind, head.replace("\0", "if %s then" % expr(e["c"])))
            self.emit(ind + 1, expr(e["t"]))
            self.emit(ind, "else")
            self.emit(ind + 1, expr(e["e"]))
            return
        t = self.simple(s)
        if t is not None:
            self.emit(ind, t)
        elif k == "if":
            self.emit(ind, "if %s then" % expr(s["c"]))
            self.block(s["t"], ind + 1, path + ".t")
            if s["e"]:
                self.emit(ind, "else")
                self.block(s["e"], ind + 1, path + ".e")
        elif k == "while":
            self.emit(ind, "while %s do" % expr(s["c"]))
            self.block(s["b"], ind + 1, path + ".b")
        elif k == "for":
            it = s["it"]
            if it["k"] == "range":
                r = "%s %s %s" % (operand(it["a"]), "..=" if it["incl"] else "..", operand(it["b"]))
                if it["step"]["k"] != "absent":
                    r += " .. " + operand(it["step"])
            else:
                r = expr(it)
            self.emit(ind, "for %s in %s do" % (s["n"], r))
            self.block(s["b"], ind + 1, path + ".b")
        elif k == "with":
            head = "with %s" % s["r"]
            if s["a"]:
                head += " as %s" % s["a"] + (": " + s["ty"] if s["ty"] else "")
            self.emit(ind, head + " do")
            self.block(s["b"], ind + 1, path + ".b")
        elif k == "match":
            self.emit(ind, "match %s" % expr(s["e"]))
            for j, a in enumerate(s["arms"]):
                p = a["p"]
                self.emit(ind + 1, "%s =>" % ("_" if p["k"] == "wild" else expr(p)))
                self.block(a["b"], ind + 2, "%s.a%d" % (path, j))
        elif k == "handle":
            self.emit(ind, self.simple(s["s"]) + " handle")
            for j, a in enumerate(s["arms"]):
                self.emit(ind + 1, "%s: %s =>" % (a["n"], a["c"]))
                self.block(a["b"], ind + 2, "%s.h%d" % (path, j))
        elif k == "fun":
            ps = params(s["ps"])
            if s.get("self"):
                ps = [("self" if s.get("selfmut", True) else "fin self")] + ps
            head = "def %s(%s)" % (s["n"], ", ".join(ps))
            if s["ret"]:
                head += " -> " + s["ret"]
            if s["raises"]:
                head += " raise [%s]" % ", ".join(s["raises"])
            if s.get("abstract"):
                self.emit(ind, head)
            elif INLINE_BODIES and len(s["b"]) == 1 and self.one_line(s["b"][0]) is not None:
                self.emit(ind, head + " => " + self.one_line(s["b"][0]))
            else:
                self.emit(ind, head + " =>")
                self.block(s["b"], ind + 1, path + ".b")
        elif k == "class":
            head = ("type " if s.get("abstract") else "class ") + s["n"]
            if s["args"]:
                args = []
                for a in s["args"]:
                    t = ("def " if a["isdef"] else "") + ("" if a["mut"] or not a["isdef"] else "fin ") + a["n"]
                    if a["ty"]:
                        t += ": " + a["ty"]
                    if a["d"]["k"] != "absent":
                        t += " := " + expr(a["d"])
                    args.append(t)
                head += "(%s)" % ", ".join(args)
            if s["parents"]:
                ps = []
                for p in s["parents"]:
                    ps.append(p["c"] + ("(%s)" % ", ".join(expr(a) for a in p["args"]) if p["args"] else ""))
                head += ": " + ", ".join(ps)
            self.emit(ind, head)
            members = [("f%d" % j, f) for j, f in enumerate(s["fields"])] + [("m%d" % j, m) for j, m in enumerate(s["methods"])]
            if s.get("order") == "mf":      # methods first in the source
                members = [x for x in members if x[0][0] == "m"] + [x for x in members if x[0][0] == "f"]
            elif isinstance(s.get("order"), list):      # an explicit order: 1-based indices into fields \o methods
                members = [members[j - 1] for j in s["order"]]
            for tag, m in members:
                self.stmt(m, ind + 1, "%s.%s" % (path, tag))
        else:
            raise ValueError("cannot render statement kind %r" % k)


def program(p):
    r = R()
    r.block(p["stmts"], 0, "")
    return "\n".join(r.out) + "\n", r.lines
