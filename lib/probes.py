"""Shared machinery of the probe-grid checks (C05-C09 and the program families of C01/C04/C11...):
TLC enumerates plugged probes (spec/MC_Cxx.tla), render.py prints them, the harness transpiles them,
spec/VerdictJudge.tla judges the recorded verdicts."""
import json

import render
import vlib


def generate(chk, module, parts, depth, extra=None, cfg="MC_Probe.cfg"):
    cases = []
    for part in parts:
        consts = {"Depth": depth, "Part": '"%s"' % part}
        if extra:
            consts.update(extra)
        r = vlib.tlc(module, cfg, constants=consts, xss="1g")
        chk.add_tlc(r)
        cases += r.records
    for i, c in enumerate(cases):
        c["id"] = i
        c["src"], c["lines"] = render.program(c["prog"])
    return cases


def generate_gen(chk, n, size, base=None):
    """n programs of the typed generator spec/MambaGen.tla (R1 invariant InsideSemantics is checked by the same TLC run)"""
    if base is None:
        base = (vlib.seed() % 20) * 10000 + (0 if size == 1 else 5000)
    r = vlib.tlc("MambaGen", "MambaGen.cfg", constants={"N": n, "Base": base, "Size": size}, xss="1g")
    chk.add_tlc(r)
    cases = r.records
    for i, c in enumerate(cases):
        c["id"] = i
        c["src"], c["lines"] = render.program(c["prog"])
    return cases


def generate_forms(chk):
    """the forms of spec/MC_Forms.tla: programs given as text with the lines they must print (computed by the specification)"""
    r = vlib.tlc("MC_Forms", "MC_Forms.cfg")
    chk.add_tlc(r)
    cases = sorted(r.records, key=lambda c: (c["name"], c["src"]))
    for i, c in enumerate(cases):
        c.update({"id": i, "kind": "form-" + c["name"], "ctx": [], "hoist": False, "prop": "FORMS", "expect_out": c["out"], "src": "\n".join(c["src"]) + "\n", "lines": {}})
    return cases


def verdict_of(run):
    if run.get("panic"):
        return "panic"
    return "accept" if run["ok"] else "reject"


def transpile(vh, cases, annotate=(False, True)):
    recs = [{"id": c["id"], "src": c["src"], "annotate": list(annotate)} for c in cases]
    out = vlib.run_vh(vh, ["transpile"], records=recs)
    return {o["id"]: o["runs"] for o in out}


def judge_verdicts(chk, cases, runs, known=None, with_prog=False):
    """returns list of (case, verdict string); classification of violations is done by the caller through `known`"""
    obs = []
    for c in cases:
        rs = runs[c["id"]]
        obs.append({"id": c["id"], "prop": c["prop"], "kind": c["kind"], "note": c["note"], "expect": c["expect"],
                    "off": verdict_of(rs[0]), "on": verdict_of(rs[-1])})
        if with_prog:
            obs[-1]["prog"] = c["prog"]
    verdicts, states, trans = vlib.judge("VerdictJudge", "VerdictJudge.cfg", obs, chunk=40000, xss="1g")
    chk.states += states
    chk.transitions += trans
    chk.cmds.append("tlc VerdictJudge.tla (TRACE=<recorded verdicts>)")
    if len(verdicts) != len(obs):
        raise vlib.ToolError("judge returned %d verdicts for %d observations" % (len(verdicts), len(obs)))
    by = {c["id"]: c for c in cases}
    res = []
    counts = {}
    for v in verdicts:
        c = by[v["id"]]
        if not v["label_agrees"]:
            raise vlib.ToolError("generator label and judge rule disagree on case %r (spec error)" % (c["note"],))
        res.append((c, v["v"]))
        key = "%s/%s/%s" % (c["kind"], c["expect"], v["v"].split(":")[0])
        counts[key] = counts.get(key, 0) + 1
    chk.extra.setdefault("verdict_counts", {}).update(counts)
    return res


def record(chk, results, runs, explain):
    """explain(case, verdict, runs) -> known-finding id or None"""
    for c, v in results:
        chk.evaluations += 1
        if v.startswith("skip"):
            continue
        chk.traces += 1
        chk.nontriv(c["src"])
        if v == "ok":
            if c["expect"] == "reject" or chk.evaluations % 7 == 0:
                chk.sample({"program": c["src"], "expected": c["expect"], "verdict": "ok"}, limit=5)
            continue
        fid = explain(c, v, runs[c["id"]])
        if fid and fid in chk.kf:
            chk.known(fid)
            continue
        first_err = ""
        rs = runs[c["id"]]
        if rs[0]["errs"]:
            first_err = rs[0]["errs"][0].splitlines()[0]
        chk.violation({"program": c["src"], "kind": c["kind"], "context": c["ctx"], "hoisted_setup": c["hoist"],
                       "parameters": c["note"], "expected": c["expect"], "observed": {"annotate_off": verdict_of(rs[0]), "annotate_on": verdict_of(rs[-1])},
                       "first_diagnostic": first_err, "clause": v,
                       "what": "%s: %s (kind %s, context %s)" % (v, " / ".join(c["src"].strip().splitlines()[-3:]), c["kind"], "/".join(c["ctx"]) or "top")},
                      key=c["src"])
