"""The program families shared by the whole-program checks (C02, C04, C11, C15, C16, C17, C12, C14 ...):
the value probes of C01 and the verdict probes of C05-C09, all enumerated by TLC from the MC_Cxx modules."""
import probes

FAMILIES = [
    ("MC_C01", ["ops", "control", "functions", "classes", "errors"], "MC_C01.cfg"),
    ("MC_C04", ["operands", "receivers"], "MC_Probe.cfg"),
    ("MC_C05", ["call", "method", "ctor", "return", "init", "tuple", "result"], "MC_Probe.cfg"),
    ("MC_C06", ["init", "assign", "field", "arg", "return", "use"], "MC_Probe.cfg"),
    ("MC_C07", ["var", "member", "shadow"], "MC_Probe.cfg"),
    ("MC_C08", ["raise", "position", "declare", "multi"], "MC_Probe.cfg"),
    ("MC_C09", ["var", "field", "global"], "MC_C09.cfg"),
]


def all_programs(chk, depth_values=1, depth_verdict=0, only=None, gen=0, forms=False):
    """gen = n: add n programs of each size of the typed generator spec/MambaGen.tla (family "MambaGen")"""
    cases = []
    if forms:
        part = probes.generate_forms(chk)
        for c in part:
            c["family"] = "MC_Forms"
        cases += part
    if gen:
        for size in (1, 2):
            part = probes.generate_gen(chk, gen, size)
            for c in part:
                c["family"] = "MambaGen"
            cases += part
    for module, parts, cfg in FAMILIES:
        if only and module not in only:
            continue
        depth = depth_values if module == "MC_C01" else depth_verdict
        part = probes.generate(chk, module, parts, depth, cfg=cfg)
        for c in part:
            c["family"] = module
        cases += part
    # ids must be unique across families
    seen = {}
    out = []
    for c in cases:
        if c["src"] in seen:
            continue
        seen[c["src"]] = True
        c["id"] = len(out)
        out.append(c)
    return out
