"""Shared driver library for /verif/bin/check.

Roles of TLC (see DESIGN.md section 2): R1 model check, R2 case generator, R3 judge of recorded
observations.  Everything here is plumbing: build the harness from /repo's working tree, run TLC,
collect the records it prints, run the harness / CPython side, write evidence, print verdict lines.

Exit codes of a check: 0 = property held on everything explored (KNOWN-FINDING lines allowed),
1 = VIOLATION line(s) printed, 2 = the machinery itself failed (never a VIOLATION line).
"""
import atexit
import fcntl
import hashlib
import json
import os
import re
import shutil
import subprocess
import sys
import tempfile
import time

ROOT = os.path.dirname(os.path.dirname(os.path.abspath(__file__)))
REPO = os.environ.get("VERIF_REPO", "/repo")
SPEC = os.path.join(ROOT, "spec")
HARNESS = os.environ.get("VERIF_HARNESS", os.path.join(ROOT, "harness"))      # (override: test a scratch worktree without touching /repo)
VH = os.path.join(HARNESS, "target", "debug", "vh")
PYDIR = os.path.join(ROOT, "py")
NCPU = os.cpu_count() or 4
T0 = time.time()


class ToolError(Exception):
    """The machinery failed (build error, TLC crash, timeout of the machinery, malformed record)."""


_scratch = None


def scratch():
    global _scratch
    if _scratch is None:
        _scratch = tempfile.mkdtemp(prefix="verif.%d." % os.getpid())
        atexit.register(lambda: shutil.rmtree(_scratch, ignore_errors=True))
    return _scratch


def log(*a):
    print("[%6.1fs]" % (time.time() - T0), *a, file=sys.stderr, flush=True)


def seed():
    try:
        return int(os.environ.get("VERIF_SEED", "0"))
    except ValueError:
        return 0


# ------------------------------------------------------------------------------------------------
# harness build (always from /repo's current working tree: the harness has a path dependency on it)

def build_harness():
    lock = open(os.path.join(HARNESS, ".build.lock"), "w")
    fcntl.flock(lock, fcntl.LOCK_EX)
    try:
        env = dict(os.environ, CARGO_NET_OFFLINE="true")
        t = time.time()
        p = subprocess.run(["cargo", "build", "--offline", "--quiet"], cwd=HARNESS, env=env,
                           stdout=subprocess.PIPE, stderr=subprocess.STDOUT, text=True)
        if p.returncode != 0:
            sys.stderr.write(p.stdout[-6000:])
            raise ToolError("harness build failed (does /repo still compile?)")
        log("harness built in %.1fs" % (time.time() - t))
        # private copy so that a concurrent rebuild by another check cannot swap the binary under us
        dst = os.path.join(scratch(), "vh")
        shutil.copy2(VH, dst)
    finally:
        fcntl.flock(lock, fcntl.LOCK_UN)
        lock.close()
    return dst


def repo_tree_id():
    try:
        head = subprocess.run(["git", "-C", REPO, "rev-parse", "--short", "HEAD"], capture_output=True,
                              text=True).stdout.strip()
        diff = subprocess.run(["git", "-C", REPO, "diff", "HEAD"], capture_output=True).stdout
        return head + ("+dirty-" + hashlib.sha1(diff).hexdigest()[:8] if diff else "")
    except Exception:
        return "unknown"


def run_vh(vh, args, records=None, stdin_text=None, timeout=3600, env=None):
    """Run a harness sub-command; records (list of JSON-able) go to stdin as ndjson; returns parsed ndjson."""
    if records is not None:
        stdin_text = "".join(json.dumps(r, ensure_ascii=False) + "\n" for r in records)
    e = dict(os.environ)
    e.setdefault("RUST_MIN_STACK", str(64 * 1024 * 1024))
    if env:
        e.update(env)
    p = subprocess.run([vh] + args, input=stdin_text, capture_output=True, text=True, timeout=timeout, env=e)
    if p.returncode != 0:
        sys.stderr.write(p.stderr[-4000:])
        raise ToolError("harness %s exited %d" % (" ".join(args), p.returncode))
    out = []
    for line in p.stdout.splitlines():
        if line.strip():
            out.append(json.loads(line))
    return out


def run_vh_isolated(vh, args, records, chunk=256, timeout=120):
    """Like run_vh, but survives the death of the harness process (stack overflow, abort) and hangs: the batch is bisected
    until the single input that kills / hangs the worker is isolated.  Returns (results by id, {id: "died:<signal>" | "hung"})."""
    results, dead = {}, {}

    def attempt(part, limit):
        text = "".join(json.dumps(r, ensure_ascii=False) + "\n" for r in part)
        e = dict(os.environ)
        e.setdefault("RUST_MIN_STACK", str(64 * 1024 * 1024))
        try:
            p = subprocess.run([vh] + args, input=text, capture_output=True, text=True, timeout=limit, env=e)
        except subprocess.TimeoutExpired:
            return "hung"
        if p.returncode != 0:
            return "died:%d" % p.returncode
        for line in p.stdout.splitlines():
            if line.strip():
                o = json.loads(line)
                results[o["id"]] = o
        return None

    def go(part, limit):
        if not part:
            return
        why = attempt(part, limit)
        if why is None:
            return
        if len(part) == 1:
            dead[part[0]["id"]] = why
            return
        mid = len(part) // 2
        go(part[:mid], max(30, limit // 2) if why == "hung" else limit)
        go(part[mid:], max(30, limit // 2) if why == "hung" else limit)

    for off in range(0, len(records), chunk):
        go(records[off:off + chunk], timeout)
    return results, dead


# ------------------------------------------------------------------------------------------------
# TLC

class TLCResult:
    def __init__(self):
        self.records = []      # JSON values printed with PrintT("@@" \o ToJson(..))
        self.tuples = []       # raw lines printed as <<...>> tuples
        self.generated = 0
        self.distinct = 0
        self.violation = None  # name of a violated invariant / property, if any
        self.output = ""
        self.wall = 0.0
        self.cmd = ""
        self.rc = 0


_RE_STATES = re.compile(r"(\d+) states generated, (\d+) distinct states found")


def tlc(module, cfg, *, workers=None, env=None, timeout=1800, sequential=False, xss="512m", xmx=None,
        constants=None, simulate=None, allow_violation=False, cwd=None):
    """Run TLC on spec/<module>.tla with spec/<cfg>.  `constants` (dict) generates a derived cfg."""
    cwd = cwd or SPEC
    md = tempfile.mkdtemp(prefix="tlc.", dir=scratch())
    cfg_path = os.path.join(cwd, cfg)
    if constants:
        text = open(cfg_path).read()
        text += "\nCONSTANTS\n" + "".join("  %s = %s\n" % (k, v) for k, v in constants.items())
        cfg_path = os.path.join(md, "gen_" + os.path.basename(cfg))
        open(cfg_path, "w").write(text)
    w = 1 if sequential else (workers or NCPU)
    jopts = "-Xss%s" % xss
    if sequential:
        jopts += " -Dtlc2.tool.queue.IStateQueue=StateDeque"
    if xmx:
        jopts += " -Xmx%s" % xmx
    e = dict(os.environ)
    e["JAVA_TOOL_OPTIONS"] = jopts
    if env:
        e.update({k: str(v) for k, v in env.items()})
    cmd = ["timeout", str(timeout), "tlc", "-workers", str(w), "-metadir", os.path.join(md, "states"),
           "-cleanup", "-noGenerateSpecTE", "-config", cfg_path]
    if simulate:
        cmd += ["-simulate", simulate]
    cmd += [module + ".tla"]
    r = TLCResult()
    r.cmd = " ".join(cmd[2:])
    t = time.time()
    p = subprocess.run(cmd, cwd=cwd, env=e, stdout=subprocess.PIPE, stderr=subprocess.STDOUT, text=True)
    r.wall = time.time() - t
    r.rc = p.returncode
    r.output = p.stdout
    shutil.rmtree(md, ignore_errors=True)
    for line in p.stdout.splitlines():
        if line.startswith('"@@'):
            try:
                r.records.append(json.loads(json.loads(line)[2:]))
            except Exception as ex:
                raise ToolError("malformed record from TLC: %r (%s)" % (line[:200], ex))
        elif line.startswith("<<"):
            r.tuples.append(line)
        else:
            m = _RE_STATES.search(line)
            if m:
                r.generated, r.distinct = int(m.group(1)), int(m.group(2))
            m = re.match(r"Error: Invariant (\S+) is violated", line)
            if m:
                r.violation = m.group(1)
            m = re.match(r"Error: (Action property|Temporal properties|Property) (.*)", line)
            if m and r.violation is None:
                r.violation = m.group(2)
    if p.returncode == 124:
        raise ToolError("TLC timed out after %ds on %s/%s" % (timeout, module, cfg))
    if r.violation and not allow_violation:
        sys.stderr.write(tail(p.stdout))
        raise ToolError("the committed spec %s/%s violates its own property %s (spec error, not a finding)"
                        % (module, cfg, r.violation))
    if p.returncode != 0 and not r.violation:
        sys.stderr.write(tail(p.stdout))
        raise ToolError("TLC failed (rc=%d) on %s/%s" % (p.returncode, module, cfg))
    log("TLC %s/%s: %d generated, %d distinct, %d records, %.1fs" % (module, cfg, r.generated, r.distinct,
                                                                      len(r.records), r.wall))
    return r


def tail(s, n=60):
    return "\n".join(s.splitlines()[-n:]) + "\n"


def write_ndjson(path, records):
    with open(path, "w") as f:
        for r in records:
            f.write(json.dumps(r, ensure_ascii=False) + "\n")
    return path


def judge(module, cfg, records, *, chunk=None, timeout=1800, sequential=False, env=None, xss="1g", constants=None):
    """R3: hand recorded observations to a TLC judge spec; returns (verdict records, states, transitions).

    The judge spec reads IOEnv.TRACE, takes one initial state per record and prints one verdict record
    {"id":..,"v":..} per observation.  Large batches are split so that a JVM never holds more than `chunk`.
    """
    verdicts, gen, dist = [], 0, 0
    chunk = chunk or len(records) or 1
    for off in range(0, len(records), chunk):
        part = records[off:off + chunk]
        path = os.path.join(scratch(), "obs.%d.%d.ndjson" % (os.getpid(), off))
        write_ndjson(path, part)
        e = {"TRACE": path}
        if env:
            e.update(env)
        r = tlc(module, cfg, env=e, timeout=timeout, sequential=sequential, xss=xss, constants=constants)
        os.unlink(path)
        verdicts += r.records
        gen += r.generated
        dist += r.distinct
    return verdicts, dist, gen


# ------------------------------------------------------------------------------------------------
# known findings, replays, evidence, verdict lines

def known_findings(prop):
    path = os.path.join(ROOT, "known_findings.json")
    if not os.path.exists(path):
        return []
    return [k for k in json.load(open(path)) if k.get("property") == prop and k.get("status") == "open"]


def write_replay(prop, payload):
    if os.environ.get("VERIF_HARNESS"):
        d = os.path.join("/tmp", "seed_replays")
        os.makedirs(d, exist_ok=True)
        h = hashlib.sha1(json.dumps(payload, sort_keys=True, ensure_ascii=False).encode()).hexdigest()[:12]
        path = os.path.join(d, "%s-%s.json" % (prop, h))
        json.dump(payload, open(path, "w"), indent=1, ensure_ascii=False, sort_keys=True)
        return path
    os.makedirs(os.path.join(ROOT, "replays"), exist_ok=True)
    h = hashlib.sha1(json.dumps(payload, sort_keys=True, ensure_ascii=False).encode()).hexdigest()[:12]
    path = os.path.join(ROOT, "replays", "%s-%s.json" % (prop, h))
    with open(path, "w") as f:
        json.dump(payload, f, indent=1, ensure_ascii=False, sort_keys=True)
    return path


class Check:
    """Collects what one check run did; finish() writes evidence, prints verdict lines, returns exit code."""

    def __init__(self, prop, tier):
        self.prop, self.tier = prop, tier
        self.states = 0
        self.transitions = 0
        self.traces = 0
        self.evaluations = 0
        self.nontrivial = set()
        self.samples = []
        self.violations = []      # (key, payload)
        self.known_hits = {}      # finding id -> count
        self.notes = []
        self.drift = []
        self.extra = {}
        self.exhaustive = False
        self.rule = ""
        self.assumptions = []
        self.cmds = []
        self.kf = {k["id"]: k for k in known_findings(prop)}

    def add_tlc(self, r):
        self.states += r.distinct
        self.transitions += r.generated
        self.cmds.append(r.cmd)

    def sample(self, s, limit=6):
        if len(self.samples) < limit:
            self.samples.append(s)

    def nontriv(self, key):
        self.nontrivial.add(key if isinstance(key, (str, int)) else json.dumps(key, sort_keys=True))

    def violation(self, payload, key=None):
        key = key or json.dumps(payload, sort_keys=True, ensure_ascii=False)
        self.violations.append((key, payload))

    def known(self, fid):
        self.known_hits[fid] = self.known_hits.get(fid, 0) + 1

    def note(self, s):
        self.notes.append(s)
        log("NOTE", s)

    def finish(self):
        wall = time.time() - T0
        # de-duplicate, cap the number of replay files
        seen, viol = set(), []
        for key, payload in self.violations:
            if key in seen:
                continue
            seen.add(key)
            viol.append(payload)
        for fid, k in self.kf.items():
            n = self.known_hits.get(fid, 0)
            print("KNOWN-FINDING: property=%s %s %s (seen %d times this run)" % (self.prop, fid, k.get("what", ""), n))
        for payload in viol[:20]:
            payload = dict(payload, property=self.prop, tree=repo_tree_id(), seed=seed(), tier=self.tier)
            path = write_replay(self.prop, payload)
            print("VIOLATION property=%s replay=%s" % (self.prop, path))
            what = payload.get("what") or payload.get("v") or ""
            if what:
                print("  %s" % (str(what)[:300]))
        if len(viol) > 20:
            print("  (+%d further violations not written)" % (len(viol) - 20))
        cov = {
            "states": self.states, "transitions": self.transitions,
            "traces_validated_against_impl": self.traces,
            "evaluations": self.evaluations, "distinct_nontrivial": len(self.nontrivial),
            "rule": self.rule, "samples": self.samples or ["(none)"], "exhaustive": self.exhaustive,
            "checker_cmd": " ; ".join(self.cmds[:6]),
            "known_findings_seen": self.known_hits, "notes": self.notes[:40], "drift": self.drift[:40],
            "tree": repo_tree_id(),
        }
        cov.update(self.extra)
        ev = {"property_id": self.prop, "tier": self.tier, "seed": seed(), "level": "model_checking",
              "coverage": cov, "assumptions": self.assumptions, "wall_s": round(wall, 1), "violations": len(viol)}
        # evidence is only ever written for runs against /repo itself (bin/seedtest runs against a scratch worktree)
        evdir = os.path.join(ROOT, "evidence") if not os.environ.get("VERIF_HARNESS") else os.path.join(scratch(), "evidence")
        os.makedirs(evdir, exist_ok=True)
        with open(os.path.join(evdir, self.prop + ".json"), "w") as f:
            json.dump(ev, f, indent=1, ensure_ascii=False)
        print("%s %s: %d evaluations, %d traces judged, %d TLC states, %d violations, %d known-finding hits, %.1fs"
              % (self.prop, self.tier, self.evaluations, self.traces, self.states, len(viol),
                 sum(self.known_hits.values()), wall))
        return 1 if viol else 0
