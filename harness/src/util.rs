use serde_json::Value;

/// Source text of a record: either `"src": "text"` or `"chars": ["c", ...]`.
pub fn source_of(rec: &Value) -> String {
    if let Some(s) = rec.get("src").and_then(Value::as_str) {
        return s.to_string();
    }
    if let Some(cs) = rec.get("chars").and_then(Value::as_array) {
        return cs.iter().map(|c| c.as_str().unwrap_or("")).collect();
    }
    String::new()
}

pub fn chars_of(s: &str) -> Vec<String> {
    s.chars().map(|c| c.to_string()).collect()
}
