//! `vh project`: materialise a project on disk, run the real `transpile_dir` (twice), snapshot the output tree, and run
//! `mamba_to_python` directly with every requested presentation order (and with an extra unrelated file).
use std::collections::BTreeMap;
use std::fs;
use std::path::{Path, PathBuf};

use mamba::verif_hooks;
use mamba::{mamba_to_python, transpile_dir, Arguments, PipelineArguments};
use serde_json::{json, Value};

use crate::transpile::event_json;

fn snapshot(dir: &Path, base: &Path, out: &mut BTreeMap<String, String>) {
    if let Ok(rd) = fs::read_dir(dir) {
        for e in rd.flatten() {
            let p = e.path();
            if p.is_dir() {
                snapshot(&p, base, out);
            } else {
                let rel = p.strip_prefix(base).unwrap_or(&p).to_string_lossy().to_string();
                out.insert(rel, fs::read_to_string(&p).unwrap_or_else(|_| String::from("<unreadable>")));
            }
        }
    }
}

fn result_json(res: Result<Result<Vec<String>, Vec<String>>, String>) -> Value {
    match res {
        Ok(Ok(out)) => json!({"ok": true, "out": out, "errs": []}),
        Ok(Err(errs)) => json!({"ok": false, "out": [], "errs": errs}),
        Err(p) => json!({"ok": false, "out": [], "errs": [], "panic": p}),
    }
}

pub fn project_record(rec: &Value) -> Value {
    let id = rec.get("id").cloned().unwrap_or(Value::Null);
    let annotate = rec.get("annotate").and_then(Value::as_bool).unwrap_or(false);
    let files: Vec<(String, String)> = rec["files"]
        .as_array()
        .map(|a| a.iter().map(|f| (f["path"].as_str().unwrap_or("").to_string(), f["src"].as_str().unwrap_or("").to_string())).collect())
        .unwrap_or_default();
    let root = std::env::temp_dir().join(format!("vh-proj-{}-{}", std::process::id(), id.to_string().replace(['"', '/'], "_")));
    let _ = fs::remove_dir_all(&root);
    let src_dir = root.join("src");
    for (path, src) in &files {
        let p = src_dir.join(path);
        if let Some(parent) = p.parent() {
            fs::create_dir_all(parent).expect("mkdir");
        }
        fs::write(&p, src).expect("write source");
    }
    if files.is_empty() {
        fs::create_dir_all(&src_dir).expect("mkdir");
    }
    // pre-existing content of the output directory (for the "already populated" runs)
    if let Some(pre) = rec.get("pre").and_then(Value::as_array) {
        for f in pre {
            let p = root.join("out").join(f["path"].as_str().unwrap_or("x"));
            if let Some(parent) = p.parent() {
                fs::create_dir_all(parent).expect("mkdir");
            }
            fs::write(&p, f["src"].as_str().unwrap_or("")).expect("write pre");
        }
    }

    let mut runs = vec![];
    for _ in 0..2 {
        let root2 = root.clone();
        verif_hooks::start();
        let res = crate::guarded(move || transpile_dir(&root2, Some("src"), Some("out"), &Arguments { annotate }));
        let (events, _) = verif_hooks::finish();
        let mut tree = BTreeMap::new();
        snapshot(&root.join("out"), &root.join("out"), &mut tree);
        let events: Vec<Value> = events
            .iter()
            .map(event_json)
            .map(|mut e| {
                // make paths relative to the project root
                if let Some(p) = e.get("path").and_then(Value::as_str).map(String::from) {
                    e["path"] = json!(p.replace(&format!("{}/", root.display()), ""));
                }
                e
            })
            .collect();
        let (ok, errs, panic) = match res {
            Ok(Ok(_)) => (true, vec![], Value::Null),
            Ok(Err(errs)) => (false, errs, Value::Null),
            Err(p) => (false, vec![], json!(p)),
        };
        runs.push(json!({"ok": ok, "errs": errs, "panic": panic, "tree": tree, "events": events}));
    }
    let _ = fs::remove_dir_all(&root);

    // direct calls with explicit presentation orders
    let source_dir = PathBuf::from("/proj/src");
    let direct = |order: &[usize], extra: Option<&(String, String)>| -> Value {
        let mut input: Vec<(String, Option<PathBuf>)> = order.iter().map(|i| (files[*i].1.clone(), Some(source_dir.join(&files[*i].0)))).collect();
        if let Some((p, s)) = extra {
            input.push((s.clone(), Some(source_dir.join(p))));
        }
        let sd = source_dir.clone();
        let res = crate::guarded(move || mamba_to_python(&input, &sd, &PipelineArguments { annotate }));
        let mut v = result_json(res);
        v["order"] = json!(order);
        v
    };
    let perms: Vec<Vec<usize>> = rec["perms"]
        .as_array()
        .map(|a| a.iter().map(|p| p.as_array().map(|x| x.iter().map(|i| i.as_u64().unwrap_or(0) as usize).collect()).unwrap_or_default()).collect())
        .unwrap_or_default();
    let perm_runs: Vec<Value> = perms.iter().map(|p| direct(p, None)).collect();
    let extra = rec.get("extra").filter(|e| e.is_object()).map(|e| (e["path"].as_str().unwrap_or("").to_string(), e["src"].as_str().unwrap_or("").to_string()));
    let identity: Vec<usize> = (0..files.len()).collect();
    let with_extra = extra.as_ref().map(|e| direct(&identity, Some(e))).unwrap_or(Value::Null);
    json!({"id": id, "runs": runs, "perms": perm_runs, "with_extra": with_extra})
}
