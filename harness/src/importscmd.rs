//! `vh imports-replay`: replay an operation sequence on the real import accumulator; record its rendered lines after each step.
use mamba::generate::verif_generate::Imports;
use serde_json::{json, Value};

fn lines_of(imports: &Imports) -> Vec<Value> {
    imports
        .imports()
        .iter()
        .map(|core| {
            let text = format!("{core}");
            let text = text.trim();
            if let Some(rest) = text.strip_prefix("from ") {
                let (module, names) = rest.split_once(" import ").unwrap_or((rest, ""));
                json!({"module": module, "names": names.split(", ").map(str::trim).filter(|s| !s.is_empty()).collect::<Vec<_>>()})
            } else {
                let names = text.strip_prefix("import ").unwrap_or(text);
                json!({"module": "", "names": names.split(", ").map(str::trim).collect::<Vec<_>>()})
            }
        })
        .collect()
}

pub fn replay_record(rec: &Value) -> Value {
    let id = rec.get("id").cloned().unwrap_or(Value::Null);
    let ops = rec["ops"].as_array().cloned().unwrap_or_default();
    let mut imports = Imports::new();
    let mut lines = vec![];
    for op in &ops {
        let (m, n) = (op["m"].as_str().unwrap_or(""), op["n"].as_str().unwrap_or(""));
        if op["op"] == "import" {
            imports.add_import(m);
        } else {
            imports.add_from_import(m, n);
        }
        lines.push(Value::Array(lines_of(&imports)));
    }
    json!({"id": id, "ops": ops, "lines": lines})
}
