//! `vh session`: one process serves a history of requests; every response is recorded (verdict + digest of the output).
//! Input : {"id":.., "pool":[src...], "history":[idx...], "reps": n, "threads": t}
//!   - the history is served sequentially in this process;
//!   - then every pool input is transpiled `reps` times in sequence and once on each of `threads` concurrent threads.
//! Output: {"id":.., "history":[{"i": idx, "r": response}], "repeat":[{"i": idx, "rs":[distinct responses]}], "threaded":[{"i":idx,"rs":[..]}]}
//! A response is "ok:<digest of all outputs>" | "err" | "panic:<message>".
use std::collections::hash_map::DefaultHasher;
use std::hash::{Hash, Hasher};
use std::path::PathBuf;

use mamba::{mamba_to_python, PipelineArguments};
use serde_json::{json, Value};

fn digest(parts: &[String]) -> String {
    let mut h = DefaultHasher::new();
    parts.hash(&mut h);
    format!("{:016x}", h.finish())
}

pub fn respond(src: &str, annotate: bool) -> String {
    let input = vec![(src.to_string(), Some(PathBuf::from("/proj/src/in.mamba")))];
    match crate::guarded(move || mamba_to_python(&input, &PathBuf::from("/proj/src"), &PipelineArguments { annotate })) {
        Ok(Ok(out)) => format!("ok:{}", digest(&out)),
        // the property fixes the verdict and, on success, the bytes; the wording of diagnostics is not part of it
        Ok(Err(_)) => String::from("err"),
        Err(p) => format!("panic:{p}"),
    }
}

pub fn session_record(rec: &Value) -> Value {
    let id = rec.get("id").cloned().unwrap_or(Value::Null);
    let annotate = rec.get("annotate").and_then(Value::as_bool).unwrap_or(true);
    let pool: Vec<String> = rec["pool"].as_array().map(|a| a.iter().map(|s| s.as_str().unwrap_or("").to_string()).collect()).unwrap_or_default();
    let history: Vec<usize> = rec["history"].as_array().map(|a| a.iter().map(|i| i.as_u64().unwrap_or(0) as usize).collect()).unwrap_or_default();
    let reps = rec.get("reps").and_then(Value::as_u64).unwrap_or(0) as usize;
    let threads = rec.get("threads").and_then(Value::as_u64).unwrap_or(0) as usize;

    let hist: Vec<Value> = history.iter().map(|i| json!({"i": i, "r": respond(&pool[*i], annotate)})).collect();
    let mut repeat = vec![];
    let mut threaded = vec![];
    if reps > 0 || threads > 0 {
        for (i, src) in pool.iter().enumerate() {
            let mut rs: Vec<String> = vec![];
            for _ in 0..reps {
                let r = respond(src, annotate);
                if !rs.contains(&r) {
                    rs.push(r);
                }
            }
            repeat.push(json!({"i": i, "rs": rs}));
            if threads > 0 {
                let handles: Vec<_> = (0..threads)
                    .map(|_| {
                        let src = src.clone();
                        std::thread::Builder::new().stack_size(64 * 1024 * 1024).spawn(move || respond(&src, annotate)).expect("spawn")
                    })
                    .collect();
                let mut ts: Vec<String> = vec![];
                for h in handles {
                    let r = h.join().unwrap_or_else(|_| String::from("panic:thread"));
                    if !ts.contains(&r) {
                        ts.push(r);
                    }
                }
                threaded.push(json!({"i": i, "rs": ts}));
            }
        }
    }
    json!({"id": id, "history": hist, "repeat": repeat, "threaded": threaded})
}
