//! vh — verification harness: drives the real mamba code and records observations as ndjson.
//! Every sub-command reads ndjson records on stdin and writes one ndjson record per input on stdout
//! (same order).  Panics of the code under test are data (`"panic": "<message @ location>"`).
use std::io::{BufRead, Write};
use std::panic;
use std::sync::Mutex;

use rayon::prelude::*;
use serde_json::{json, Value};

mod corecmd;
mod importscmd;
mod lexcmd;
mod project;
mod session;
mod transpile;
mod typescmd;
mod util;

pub static LAST_PANIC: Mutex<Option<String>> = Mutex::new(None);

thread_local! {
    pub static PANIC_MSG: std::cell::RefCell<Option<String>> = std::cell::RefCell::new(None);
}

fn install_panic_hook() {
    panic::set_hook(Box::new(|info| {
        let loc = info
            .location()
            .map(|l| format!("{}:{}", l.file(), l.line()))
            .unwrap_or_default();
        let msg = if let Some(s) = info.payload().downcast_ref::<&str>() {
            s.to_string()
        } else if let Some(s) = info.payload().downcast_ref::<String>() {
            s.clone()
        } else {
            String::from("<non-string panic>")
        };
        PANIC_MSG.with(|p| *p.borrow_mut() = Some(format!("{msg} @ {loc}")));
    }));
}

/// Run `f`, turning a panic into `Err(message @ file:line)`.
pub fn guarded<T>(f: impl FnOnce() -> T + panic::UnwindSafe) -> Result<T, String> {
    PANIC_MSG.with(|p| *p.borrow_mut() = None);
    match panic::catch_unwind(f) {
        Ok(v) => Ok(v),
        Err(_) => Err(PANIC_MSG
            .with(|p| p.borrow_mut().take())
            .unwrap_or_else(|| String::from("<panic>"))),
    }
}

fn read_records() -> Vec<Value> {
    let stdin = std::io::stdin();
    let mut out = vec![];
    for line in stdin.lock().lines() {
        let line = line.expect("stdin");
        if line.trim().is_empty() {
            continue;
        }
        out.push(serde_json::from_str(&line).expect("malformed input record"));
    }
    out
}

fn write_records(records: &[Value]) {
    let stdout = std::io::stdout();
    let mut w = std::io::BufWriter::new(stdout.lock());
    for r in records {
        serde_json::to_writer(&mut w, r).unwrap();
        w.write_all(b"\n").unwrap();
    }
}

fn par_map(records: Vec<Value>, f: impl Fn(&Value) -> Value + Sync) -> Vec<Value> {
    records.par_iter().map(|r| f(r)).collect()
}

/// `vh ast-kinds`: which variants of the parser's Node occur in the AST of the source (coverage of the input families).
fn astkinds_record(rec: &Value) -> Value {
    use mamba::parse::ast::AST;
    let src = util::source_of(rec);
    let id = rec.get("id").cloned().unwrap_or(Value::Null);
    match guarded(move || src.parse::<AST>().map(|ast| format!("{ast:?}")).map_err(|e| e.msg.clone())) {
        Ok(Ok(dbg)) => {
            let mut kinds: Vec<String> = Vec::new();
            for part in dbg.split("node: ").skip(1) {
                let name: String = part.chars().take_while(|c| c.is_ascii_alphanumeric()).collect();
                if !name.is_empty() && !kinds.contains(&name) {
                    kinds.push(name);
                }
            }
            kinds.sort();
            serde_json::json!({"id": id, "ok": true, "kinds": kinds})
        }
        Ok(Err(e)) => serde_json::json!({"id": id, "ok": false, "err": e}),
        Err(p) => serde_json::json!({"id": id, "ok": false, "panic": p}),
    }
}

fn main() {
    install_panic_hook();
    let args: Vec<String> = std::env::args().collect();
    let cmd = args.get(1).map(String::as_str).unwrap_or("");
    // big stacks: the code under test is recursive; a stack overflow would kill the whole harness
    rayon::ThreadPoolBuilder::new()
        .stack_size(256 * 1024 * 1024)
        .build_global()
        .unwrap();
    match cmd {
        "lex" => write_records(&par_map(read_records(), lexcmd::lex_record)),
        "core-print" => write_records(&par_map(read_records(), corecmd::print_record)),
        "ast-kinds" => write_records(&par_map(read_records(), astkinds_record)),
        "types-ctx" => write_records(&par_map(read_records(), typescmd::ctx_record)),
        "types-table" => write_records(&par_map(read_records(), typescmd::table_record)),
        "transpile" => write_records(&par_map(read_records(), transpile::transpile_record)),
        "project" => write_records(&par_map(read_records(), project::project_record)),
        "session" => write_records(&par_map(read_records(), session::session_record)),
        "imports-replay" => write_records(&par_map(read_records(), importscmd::replay_record)),
        "version" => println!("{}", json!({"harness": 1})),
        _ => {
            eprintln!("usage: vh <lex|...>  (ndjson on stdin)");
            std::process::exit(2);
        }
    }
}
