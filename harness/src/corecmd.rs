//! `vh core-print`: build a real `Core` value from a tree in the vocabulary of spec/PyExpr.tla and print it
//! with the generator's own `Display` (the printer under test).
use mamba::generate::ast::node::Core;
use serde_json::{json, Value};

fn b(c: Core) -> Box<Core> {
    Box::new(c)
}

fn s(v: &Value, key: &str) -> String {
    v.get(key).and_then(Value::as_str).unwrap_or("").to_string()
}

fn seq(v: &Value, key: &str) -> Vec<Core> {
    v.get(key)
        .and_then(Value::as_array)
        .map(|a| a.iter().map(core_of).collect())
        .unwrap_or_default()
}

fn id(lit: &str) -> Core {
    Core::Id { lit: lit.to_string() }
}

pub fn core_of(t: &Value) -> Core {
    let k = s(t, "k");
    let sub = |key: &str| b(core_of(&t[key]));
    match k.as_str() {
        "id" => id(&s(t, "v")),
        "int" => Core::Int { int: s(t, "v") },
        "bin" => {
            let (left, right) = (sub("l"), sub("r"));
            match s(t, "op").as_str() {
                "or" => Core::Or { left, right },
                "and" => Core::And { left, right },
                "<" => Core::Le { left, right },
                "<=" => Core::Leq { left, right },
                ">" => Core::Ge { left, right },
                ">=" => Core::Geq { left, right },
                "==" => Core::Eq { left, right },
                "!=" => Core::Neq { left, right },
                "is" => Core::Is { left, right },
                "is not" => Core::IsN { left, right },
                "in" => Core::In { left, right },
                "|" => Core::BOr { left, right },
                "^" => Core::BXOr { left, right },
                "&" => Core::BAnd { left, right },
                "<<" => Core::BLShift { left, right },
                ">>" => Core::BRShift { left, right },
                "+" => Core::Add { left, right },
                "-" => Core::Sub { left, right },
                "*" => Core::Mul { left, right },
                "/" => Core::Div { left, right },
                "//" => Core::FDiv { left, right },
                "%" => Core::Mod { left, right },
                "**" => Core::Pow { left, right },
                other => panic!("unknown binary operator {other}"),
            }
        }
        "un" => {
            let expr = sub("e");
            match s(t, "op").as_str() {
                "not" => Core::Not { expr },
                "-" => Core::SubU { expr },
                "+" => Core::AddU { expr },
                "~" => Core::BOneCmpl { expr },
                other => panic!("unknown unary operator {other}"),
            }
        }
        "tern" => Core::Ternary { cond: sub("c"), then: sub("t"), el: sub("e") },
        "lambda" => Core::AnonFun {
            args: t["args"].as_array().map(|a| a.iter().map(|x| id(x.as_str().unwrap_or("x"))).collect()).unwrap_or_default(),
            body: sub("b"),
        },
        "call" => Core::FunctionCall { function: sub("f"), args: seq(t, "args") },
        "attr" => Core::PropertyCall { object: sub("o"), property: b(id(&s(t, "n"))) },
        "mcall" => Core::PropertyCall {
            object: sub("o"),
            property: b(Core::FunctionCall { function: b(id(&s(t, "n"))), args: seq(t, "args") }),
        },
        "index" => Core::Index { item: sub("o"), range: sub("i") },
        "isa" => Core::IsA { left: sub("l"), right: sub("r") },
        "enum" => Core::ENum { num: s(t, "n"), exp: s(t, "e") },
        "sqrt" => Core::Sqrt { expr: sub("e") },
        "tuple" => Core::Tuple { elements: seq(t, "es") },
        "list" => Core::List { elements: seq(t, "es") },
        other => panic!("unknown tree kind {other}"),
    }
}

pub fn print_record(rec: &Value) -> Value {
    let id = rec.get("id").cloned().unwrap_or(Value::Null);
    let tree = rec["tree"].clone();
    match crate::guarded(move || format!("{}", core_of(&tree))) {
        Ok(text) => json!({"id": id, "text": text.trim_end_matches('\n')}),
        Err(p) => json!({"id": id, "panic": p}),
    }
}
