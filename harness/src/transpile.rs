//! `vh transpile`: run the real pipeline (`mamba_to_python`) on one input (one or more files) per record.
//! Input : {"id":.., "files":[{"path":"a.mamba","src":"..."}], "annotate":[false,true]}   (or "src": single file)
//! Output: {"id":.., "runs":[{"annotate":b, "ok":b, "out":[py...], "errs":[rendered...], "panic":msg?,
//!          "events":[..], "counters":{..}, "ms": wall}]}
use std::path::PathBuf;
use std::time::Instant;

use mamba::verif_hooks::{self, Event};
use mamba::{mamba_to_python, PipelineArguments};
use serde_json::{json, Value};

pub fn event_json(e: &Event) -> Value {
    match e {
        Event::StageBegin { stage, files } => json!({"ev": "begin", "stage": stage, "files": files}),
        Event::StageEnd { stage, n_ok, n_err } => json!({"ev": "end", "stage": stage, "n_ok": n_ok, "n_err": n_err}),
        Event::Read { path } => json!({"ev": "read", "path": path}),
        Event::Write { path } => json!({"ev": "write", "path": path}),
    }
}

pub fn files_of(rec: &Value) -> Vec<(String, Option<PathBuf>)> {
    if let Some(files) = rec.get("files").and_then(Value::as_array) {
        files
            .iter()
            .map(|f| {
                (
                    f["src"].as_str().unwrap_or("").to_string(),
                    f.get("path").and_then(Value::as_str).map(|p| PathBuf::from("/proj/src").join(p)),
                )
            })
            .collect()
    } else {
        vec![(crate::util::source_of(rec), rec.get("path").and_then(Value::as_str).map(|p| PathBuf::from("/proj/src").join(p)))]
    }
}

pub fn run_once(files: &[(String, Option<PathBuf>)], annotate: bool) -> Value {
    let files2 = files.to_vec();
    let start = Instant::now();
    verif_hooks::start();
    let res = crate::guarded(move || {
        let args = PipelineArguments { annotate };
        mamba_to_python(&files2, &PathBuf::from("/proj/src"), &args)
    });
    let (events, counters) = verif_hooks::finish();
    let ms = start.elapsed().as_millis() as u64;
    let events: Vec<Value> = events.iter().map(event_json).collect();
    let counters: serde_json::Map<String, Value> = counters.iter().map(|(k, v)| (k.to_string(), json!(v))).collect();
    match res {
        Ok(Ok(out)) => json!({"annotate": annotate, "ok": true, "out": out, "errs": [], "events": events, "counters": counters, "ms": ms}),
        Ok(Err(errs)) => json!({"annotate": annotate, "ok": false, "out": [], "errs": errs, "events": events, "counters": counters, "ms": ms}),
        Err(p) => json!({"annotate": annotate, "ok": false, "out": [], "errs": [], "panic": p, "events": events, "counters": counters, "ms": ms}),
    }
}

pub fn transpile_record(rec: &Value) -> Value {
    let id = rec.get("id").cloned().unwrap_or(Value::Null);
    let files = files_of(rec);
    let modes: Vec<bool> = rec
        .get("annotate")
        .and_then(Value::as_array)
        .map(|a| a.iter().map(|b| b.as_bool().unwrap_or(false)).collect())
        .unwrap_or_else(|| vec![false, true]);
    let runs: Vec<Value> = modes.iter().map(|a| run_once(&files, *a)).collect();
    json!({"id": id, "runs": runs})
}
