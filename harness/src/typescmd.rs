//! `vh types-ctx` / `vh types-table`: the checker's "may be used where" relation on the real `Name` objects.
use std::convert::TryFrom;

use mamba::check::context::{Context, LookupClass};
use mamba::check::name::string_name::StringName;
use mamba::check::name::true_name::TrueName;
use mamba::check::name::{IsSuperSet, Name, Nullable, Union};
use mamba::common::position::Position;
use mamba::parse::ast::AST;
use serde_json::{json, Value};

fn context_of(src: &str) -> Result<Context, String> {
    let ast: AST = src.parse::<AST>().map_err(|e| format!("parse: {}", e.msg))?;
    Context::try_from(vec![ast].as_slice())
        .map_err(|errs| errs.iter().map(|e| e.msg.clone()).collect::<Vec<_>>().join("; "))
}

/// dump the class table of the context built from `src`
pub fn ctx_record(rec: &Value) -> Value {
    let src = rec["src"].as_str().unwrap_or("").to_string();
    match crate::guarded(move || context_of(&src)) {
        Ok(Ok(ctx)) => {
            let mut classes: Vec<Value> = ctx
                .classes
                .iter()
                .map(|c| {
                    let mut parents: Vec<String> = c.parents.iter().map(|p| p.name.to_string()).collect();
                    parents.sort();
                    json!({"name": c.name.name, "generics": c.name.generics.len(), "parents": parents, "py": c.is_py_type})
                })
                .collect();
            classes.sort_by_key(|c| c["name"].as_str().unwrap_or("").to_string());
            json!({"ok": true, "classes": classes})
        }
        Ok(Err(e)) => json!({"ok": false, "err": e}),
        Err(p) => json!({"ok": false, "panic": p}),
    }
}

/// A type term is {"ms": [{"n": name, "g": [term, ...], "q": nullable}, ...]} (a union of members).
/// Members are inserted in the order given, rotated by `rot`, into a fresh HashSet (fresh hash keys).
pub fn name_of(term: &Value, rot: usize) -> Name {
    let ms = term["ms"].as_array().cloned().unwrap_or_default();
    let n = ms.len().max(1);
    let mut name = Name::empty();
    for i in 0..ms.len() {
        let m = &ms[(i + rot) % n];
        let generics: Vec<Name> = m["g"].as_array().map(|g| g.iter().map(|t| name_of(t, rot)).collect()).unwrap_or_default();
        let sn = StringName::new(m["n"].as_str().unwrap_or(""), &generics);
        let mut tn = TrueName::from(&sn);
        if m["q"].as_bool().unwrap_or(false) {
            tn = tn.as_nullable();
        }
        name = Union::<TrueName>::union(&name, &tn);
    }
    name
}

use mamba::check::name::Empty;

/// canonical rendering of a Name: sorted members, nullable marks, generics recursively
pub fn canon(name: &Name) -> String {
    let mut ms: Vec<String> = name
        .names
        .iter()
        .map(|t| {
            let g: Vec<String> = t.variant.generics.iter().map(canon).collect();
            format!(
                "{}{}{}",
                t.variant.name,
                if g.is_empty() { String::new() } else { format!("[{}]", g.join(",")) },
                if t.is_nullable { "?" } else { "" }
            )
        })
        .collect();
    ms.sort();
    ms.dedup();
    format!("{{{}}}", ms.join("|"))
}

/// Input: {"src": user classes, "types": [term...], "reps": k, "unions": [[i,j]...], "triples": [[i,j,k]...]}
/// Output: {"n": n, "rows": [[answers as "T"/"F"/"E"/"P" strings joined] ...], "unstable": [[i,j,[answers]]],
///          "unions": [[i, j, canon(i u j), canon(j u i)]], "triples": [[i,j,k, canon((i u j) u k), canon(i u (j u k))]]}
pub fn table_record(rec: &Value) -> Value {
    let src = rec["src"].as_str().unwrap_or("").to_string();
    let ctx = match crate::guarded(move || context_of(&src)) {
        Ok(Ok(ctx)) => ctx,
        Ok(Err(e)) => return json!({"ok": false, "err": e}),
        Err(p) => return json!({"ok": false, "panic": p}),
    };
    let types = rec["types"].as_array().cloned().unwrap_or_default();
    let reps = rec["reps"].as_u64().unwrap_or(1) as usize;
    let pos = Position::invisible();
    let n = types.len();
    let mut rows: Vec<Vec<u8>> = Vec::with_capacity(n);
    let mut unstable: Vec<Value> = vec![];
    let mut errors: Vec<Value> = vec![];
    for i in 0..n {
        let mut row: Vec<u8> = Vec::with_capacity(n);
        for j in 0..n {
            let mut answers: Vec<char> = vec![];
            for rep in 0..reps {
                let (a, b) = (name_of(&types[i], rep), name_of(&types[j], rep / 2));
                let ctx_ref = &ctx;
                let ans = match crate::guarded(std::panic::AssertUnwindSafe(move || a.is_superset_of(&b, ctx_ref, pos))) {
                    Ok(Ok(true)) => 'T',
                    Ok(Ok(false)) => 'F',
                    Ok(Err(errs)) => {
                        if errors.len() < 40 {
                            errors.push(json!([i + 1, j + 1, errs.iter().map(|e| e.msg.clone()).collect::<Vec<_>>().join("; ")]));
                        }
                        'E'
                    }
                    Err(p) => {
                        if errors.len() < 40 {
                            errors.push(json!([i + 1, j + 1, format!("panic: {p}")]));
                        }
                        'P'
                    }
                };
                if !answers.contains(&ans) {
                    answers.push(ans);
                }
            }
            if answers.len() > 1 {
                unstable.push(json!([i + 1, j + 1, answers.iter().collect::<String>()]));
            }
            row.push(match answers[0] { 'T' => 1, 'F' => 0, 'E' => 2, _ => 3 });
        }
        rows.push(row);
    }
    let idx = |v: &Value| v.as_u64().unwrap_or(1) as usize - 1;
    let unions: Vec<Value> = rec["unions"].as_array().cloned().unwrap_or_default().iter().map(|p| {
        let (i, j) = (idx(&p[0]), idx(&p[1]));
        let (a, b) = (name_of(&types[i], 0), name_of(&types[j], 1));
        json!([i + 1, j + 1, canon(&a.union(&b)), canon(&b.union(&a))])
    }).collect();
    let triples: Vec<Value> = rec["triples"].as_array().cloned().unwrap_or_default().iter().map(|p| {
        let (i, j, k) = (idx(&p[0]), idx(&p[1]), idx(&p[2]));
        let (a, b, c) = (name_of(&types[i], 0), name_of(&types[j], 1), name_of(&types[k], 2));
        json!([i + 1, j + 1, k + 1, canon(&a.union(&b).union(&c)), canon(&a.union(&b.union(&c)))])
    }).collect();
    let canons: Vec<String> = types.iter().map(|t| canon(&name_of(t, 0))).collect();
    let _ = ctx.class(&StringName::from("Any"), pos);
    json!({"ok": true, "n": n, "rows": rows, "unstable": unstable, "errors": errors, "unions": unions, "triples": triples, "canon": canons})
}
