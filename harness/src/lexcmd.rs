//! `vh lex`: token streams of the real lexer, with spans, source spellings and the re-lexed canonical spelling.
use mamba::verif_hooks::{lex, LexTok};
use serde_json::{json, Value};

use crate::util::{chars_of, source_of};

/// How the token is spelled in a source text (structural tokens have no characters).
pub fn spelling(t: &LexTok) -> String {
    match t.kind.as_str() {
        "NL" | "Indent" | "Dedent" | "Eof" => String::new(),
        "DocStr" => format!("\"\"\"{}\"\"\"", t.lexeme.strip_prefix("##").unwrap_or(&t.lexeme)),
        _ => t.lexeme.clone(),
    }
}

fn tok_json(t: &LexTok) -> Value {
    json!({
        "k": t.kind, "lx": chars_of(&spelling(t)),
        "sl": t.start.0, "sc": t.start.1, "el": t.end.0, "ec": t.end.1,
        "inner": t.inner.iter().map(|ts| ts.iter().map(tok_json).collect::<Vec<_>>()).collect::<Vec<_>>(),
    })
}

/// Canonical spelling of a token stream: spellings joined by single spaces, line structure rebuilt from
/// NL / Indent / Dedent (4 spaces per level).  The NL that the lexer synthesises directly after a run of
/// dedents belongs to the dedent and is not spelled.
pub fn canonical(tokens: &[LexTok]) -> String {
    let mut out = String::new();
    let mut level: usize = 0;
    let mut at_line_start = true;
    let mut prev_dedent = false;
    for t in tokens {
        match t.kind.as_str() {
            "Indent" => level += 1,
            "Dedent" => level = level.saturating_sub(1),
            "NL" => {
                if !prev_dedent {
                    out.push('\n');
                    at_line_start = true;
                }
            }
            "Eof" => {}
            _ => {
                if at_line_start {
                    out.push_str(&" ".repeat(4 * level));
                } else {
                    out.push(' ');
                }
                out.push_str(&spelling(t));
                at_line_start = false;
            }
        }
        prev_dedent = t.kind == "Dedent";
    }
    out
}

pub fn lex_record(rec: &Value) -> Value {
    let src = source_of(rec);
    let id = rec.get("id").cloned().unwrap_or(Value::Null);
    let chars = chars_of(&src);
    let ascii = src.is_ascii();
    let src2 = src.clone();
    match crate::guarded(move || lex(&src2)) {
        Err(panic) => json!({"id": id, "chars": chars, "ascii": ascii, "ok": false, "panic": panic, "toks": []}),
        Ok(Err((line, col, msg))) => {
            json!({"id": id, "chars": chars, "ascii": ascii, "ok": false, "err": {"line": line, "col": col, "msg": msg}, "toks": []})
        }
        Ok(Ok(tokens)) => {
            let kinds: Vec<&str> = tokens.iter().map(|t| t.kind.as_str()).collect();
            let canon = canonical(&tokens);
            let canon2 = canon.clone();
            let relex: Value = match crate::guarded(move || lex(&canon2)) {
                Ok(Ok(ts)) => json!(ts.iter().map(|t| t.kind.clone()).collect::<Vec<_>>()),
                Ok(Err((l, c, m))) => json!([format!("LexErr {l}:{c} {m}")]),
                Err(p) => json!([format!("panic {p}")]),
            };
            json!({
                "id": id, "chars": chars, "ascii": ascii, "ok": true,
                "toks": tokens.iter().map(tok_json).collect::<Vec<_>>(),
                "kinds": kinds, "canon": canon, "relex": relex,
            })
        }
    }
}
