INIT Init
NEXT Next
INVARIANT InsideSemantics
INVARIANT Emit
CHECK_DEADLOCK FALSE
