------------------------------------ MODULE DiagJudge ------------------------------------
(* C19, role R3: one record per rejected input: src, diags (abstracted renderings), fault_line (0 = unknown),  *)
(* panic (rendering or pipeline panicked).                                                                      *)
EXTENDS Diag, Json, IOUtils
Rec == ndJsonDeserialize(IOEnv.TRACE)
\* the files of the project: the file under test and (two-file runs) its companion.  A diagnostic belongs to the file it names: its
\* position and quotation are judged against THAT file (a file under test that redefines a built-in class makes the companion
\* erroneous as well - such a diagnostic rightly names the companion)
Files(o) == <<o.src>> \o o.others
FileOf(o, d) == LET S == {j \in 1..Len(Files(o)) : Files(o)[j].path = d.file} IN IF S = {} THEN o.src ELSE Files(o)[CHOOSE j \in S : TRUE]
Clause(o) ==
    IF o.panic THEN "violation:panic"
    ELSE IF Len(o.diags) = 0 THEN "violation:rejection-without-diagnostic"
    ELSE IF \E j \in 1..Len(o.diags) : ~NamesFile(o.diags[j], FileOf(o, o.diags[j])) THEN "violation:diagnostic-does-not-name-its-file"
    ELSE IF \E j \in 1..Len(o.diags) : ~PosInside(o.diags[j], FileOf(o, o.diags[j])) THEN "violation:position-outside-the-file"
    ELSE IF \E j \in 1..Len(o.diags) : ~QuotesVerbatim(o.diags[j], FileOf(o, o.diags[j])) THEN "violation:quoted-line-not-verbatim"
    ELSE IF ~FaultLine(SelectSeq(o.diags, LAMBDA d : d.file = o.src.path), o.fault_line) THEN "violation:no-position-on-the-fault-line"
    ELSE "ok"
VARIABLE r
Init == r \in 1..Len(Rec)
Next == UNCHANGED r
Report == PrintT("@@" \o ToJson([id |-> Rec[r].id, v |-> Clause(Rec[r])]))
=====================================================================================
