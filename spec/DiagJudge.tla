------------------------------------ MODULE DiagJudge ------------------------------------
(* C19, role R3: one record per rejected input: src, diags (abstracted renderings), fault_line (0 = unknown),  *)
(* panic (rendering or pipeline panicked).                                                                      *)
EXTENDS Diag, Json, IOUtils
Rec == ndJsonDeserialize(IOEnv.TRACE)
Clause(o) ==
    IF o.panic THEN "violation:panic"
    ELSE IF Len(o.diags) = 0 THEN "violation:rejection-without-diagnostic"
    ELSE IF \E j \in 1..Len(o.diags) : ~NamesFile(o.diags[j], o.src) THEN "violation:diagnostic-does-not-name-its-file"
    ELSE IF \E j \in 1..Len(o.diags) : ~PosInside(o.diags[j], o.src) THEN "violation:position-outside-the-file"
    ELSE IF \E j \in 1..Len(o.diags) : ~QuotesVerbatim(o.diags[j], o.src) THEN "violation:quoted-line-not-verbatim"
    ELSE IF ~FaultLine(o.diags, o.fault_line) THEN "violation:no-position-on-the-fault-line"
    ELSE "ok"
VARIABLE r
Init == r \in 1..Len(Rec)
Next == UNCHANGED r
Report == PrintT("@@" \o ToJson([id |-> Rec[r].id, v |-> Clause(Rec[r])]))
=====================================================================================
