------------------------------------ MODULE Session ------------------------------------
(* C12 determinism.  A transpiler process serves a history of requests.  In the specification the response   *)
(* is a function of the input alone:  resp(h, k) = F(h[k])  for every history h and position k - there is no   *)
(* hidden state (hash seeds, iteration order of internal sets, time, earlier requests).                        *)
(* R2 (MC_Session): every history of length <= L over a pool of P inputs.                                      *)
(* R3 (SessionJudge): recorded responses of the real code, per process: the history's responses, the responses *)
(* of R repetitions, of T concurrent threads, and of fresh processes, must all be the one isolated response.   *)
EXTENDS Naturals, Sequences, FiniteSets, TLC

CONSTANTS P, L
Histories == UNION {[1..n -> 1..P] : n \in 1..L}
\* Deterministic, stated on an arbitrary response table resp[k] for history h and isolated responses iso[i]
Deterministic(h, resp, iso) == \A k \in 1..Len(h) : resp[k] = iso[h[k]]
=====================================================================================
