----------------------------------- MODULE MC_Session -----------------------------------
EXTENDS Session, Json
VARIABLE h
Init == h \in Histories
Next == UNCHANGED h
\* R1 (trivial in the ideal spec, kept as the statement of the property): a pure F makes every history deterministic
F(i) == i * 7 + 1
Pure == Deterministic(h, [k \in 1..Len(h) |-> F(h[k])], [i \in 1..P |-> F(i)])
Emit == PrintT("@@" \o ToJson([history |-> h]))
=====================================================================================
