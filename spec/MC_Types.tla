----------------------------------- MODULE MC_Types -----------------------------------
(* C20 roles R1 + R2.  R1: the laws hold for the specified relation Sub on the universe (one initial   *)
(* state per left-hand type, so all workers share the triples).  R2: the universe is emitted once as   *)
(* the case for the harness (a sequence, so that indices are shared with the judge).                   *)
EXTENDS Types, Json, SequencesExt

CONSTANT Size        \* "small" | "full"
Universe == IF Size = "small" THEN UniverseSmall ELSE UniverseFull
Tys == SetToSeq(Universe)
SubTable == [i \in 1..Len(Tys) |-> [j \in 1..Len(Tys) |-> IF Sub(Tys[i], Tys[j]) THEN 1 ELSE 0]]

VARIABLE i
Init == i \in 1..Len(Tys)
Next == UNCHANGED i
LawsOfSub == \A n \in 1..Len(LawNames) : Law(n, SubTable, Tys, i)
Emit == i = 1 => PrintT("@@" \o ToJson([src |-> UserSource, types |-> Tys]))
=====================================================================================
