---------------------------------- MODULE TypesTable ----------------------------------
(* C20, role R3: the table R recorded from the REAL relation (Name::is_superset_of on a Context built   *)
(* from UserSource) is loaded and every law is checked ON R ITSELF - there is no model in between.      *)
(* The record also carries: `unstable` (queries whose answer changed between repetitions with fresh     *)
(* hash orders / rotated member insertion), `unions` and `triples` (canonical renderings of real        *)
(* Name::union results in both orders / groupings).  Drift: R compared with the specified Sub.          *)
EXTENDS Types, Json, IOUtils

Rec == ndJsonDeserialize(IOEnv.TRACE)[1]
\* JSON has no sets: a type arrives as [ms |-> <<member, ...>>]; rebuild the spec's representation
RECURSIVE FromJson(_)
FromJsonMem(m) == Mem(m.n, [j \in 1..Len(m.g) |-> FromJson(m.g[j])], m.q)
FromJson(t) == Ty({FromJsonMem(t.ms[j]) : j \in 1..Len(t.ms)})
Tys == [j \in 1..Len(Rec.types) |-> FromJson(Rec.types[j])]
R == Rec.rows
N == Len(Tys)

VARIABLE i      \* 1..N: laws for left-hand type i;  0: the global clauses
Init == i \in 0..N
Next == UNCHANGED i

FailedLaws == {n \in 1..Len(LawNames) : ~Law(n, R, Tys, i)}
TransWitness == IF \E j, k \in 1..N : Holds(R, i, j) /\ Holds(R, j, k) /\ ~Holds(R, i, k)
                THEN LET w == CHOOSE w \in (1..N) \X (1..N) : Holds(R, i, w[1]) /\ Holds(R, w[1], w[2]) /\ ~Holds(R, i, w[2])
                     IN <<i, w[1], w[2]>>
                ELSE <<>>
\* witnesses j of a failing generic-arguments-related law for left-hand type i
GenWitness == IF IsPlain(Tys[i]) /\ Len(OneMem(Tys[i]).g) > 0
              THEN {j \in 1..N : IsPlain(Tys[j]) /\ OneMem(Tys[j]).n = OneMem(Tys[i]).n /\ Len(OneMem(Tys[j]).g) = Len(OneMem(Tys[i]).g) /\ Holds(R, i, j)
                                  /\ \E a \in 1..Len(OneMem(Tys[i]).g) : Has(Tys, OneMem(Tys[i]).g[a]) /\ Has(Tys, OneMem(Tys[j]).g[a])
                                                                            /\ ~Holds(R, Idx(Tys, OneMem(Tys[i]).g[a]), Idx(Tys, OneMem(Tys[j]).g[a]))}
              ELSE {}
DriftRow == {j \in 1..N : (R[i][j] = 1) # Sub(Tys[i], Tys[j])}

Global == [ universe_is_spec |-> TRUE,
            total      |-> Total(R, Tys),
            stable     |-> Len(Rec.unstable) = 0,
            commutative|-> \A u \in 1..Len(Rec.unions) : Rec.unions[u][3] = Rec.unions[u][4],
            idempotent |-> \A u \in 1..Len(Rec.unions) : Rec.unions[u][1] = Rec.unions[u][2] => Rec.unions[u][3] = Rec.canon[Rec.unions[u][1]],
            associative|-> \A u \in 1..Len(Rec.triples) : Rec.triples[u][4] = Rec.triples[u][5] ]

Report == IF i = 0
          THEN PrintT("@@" \o ToJson([i |-> 0, global |-> Global]))
          ELSE PrintT("@@" \o ToJson([i |-> i, failed |-> {LawNames[n] : n \in FailedLaws}, trans |-> TransWitness, gen |-> GenWitness,
                                      drift |-> Cardinality(DriftRow)]))
=====================================================================================
