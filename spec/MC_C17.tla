------------------------------------- MODULE MC_C17 -------------------------------------
(* C17, role R2: class shapes - class arguments 0-2 (def / plain, trailing defaults) x explicit __init__ x parents 0-2 (with and   *)
(* without arguments, sharing an argument with the class or not) x fields 0-2 x methods (plain with default, operator, fin self) x   *)
(* members in source order methods-first or fields-first; top-level functions with defaults and a vararg.                            *)
EXTENDS MambaAPI, Json
CONSTANTS Depth, Part

I(n) == IntL(n)
ArgKinds == {<<isdef, hasd>> : isdef \in BOOLEAN, hasd \in BOOLEAN}
ArgSeqs == {<<>>} \cup {<<a>> : a \in ArgKinds} \cup {<<a, b>> : a \in ArgKinds, b \in ArgKinds}
ValidArgs(s) == \A j \in 1..Len(s) : s[j][2] => \A k \in j..Len(s) : s[k][2]       \* defaults are trailing
CArgs(s) == [j \in 1..Len(s) |-> CArg("p" \o ToString(j), s[j][1], TRUE, "Int", IF s[j][2] THEN I(j * 10) ELSE Absent)]

Base1 == Class("Base1", <<>>, <<>>, <<Def("b1", TRUE, "Int", I(1))>>, <<Method("hello", FALSE, <<>>, "Int", <<>>, <<Expr(I(1))>>)>>)
Base2 == Class("Base2", <<CArg("b", TRUE, TRUE, "Int", Absent)>>, <<>>, <<>>, <<Method("twice", FALSE, <<>>, "Int", <<>>, <<Expr(Bin("*", Field(Var("self"), "b"), I(2)))>>)>>)
\* (an integer literal as parent argument is a syntax error today - "Base2(5)" - so parents with arguments take a class argument)
ParentChoices(hasArg) == {<<>>, <<Parent("Base1", <<>>)>>}
                         \cup (IF hasArg THEN {<<Parent("Base2", <<Var("p1")>>)>>, <<Parent("Base2", <<Var("p1")>>), Parent("Base1", <<>>)>>,
                                               <<Parent("Base1", <<>>), Parent("Base2", <<Var("p1")>>)>>} ELSE {})
Fields == <<Def("f1", TRUE, "Int", I(1)), Def("f2", FALSE, "Str", StrL("s"))>>
MPlain == Method("calc", TRUE, <<Param("a", "Int", Absent), Param("b", "Int", I(3))>>, "Int", <<>>, <<Expr(Bin("+", Var("a"), Var("b")))>>)
MOp    == Method("+", TRUE, <<Param("other", "K", Absent)>>, "K", <<>>, <<Expr(Var("other"))>>)
MFin   == Method("peek", FALSE, <<>>, "Int", <<>>, <<Expr(I(7))>>)
MethodSets == SUBSET {1, 2, 3}
MethodsOf(S) == SelectSeq(<<MPlain, MOp, MFin>>, LAMBDA m : (m.n = "calc" /\ 1 \in S) \/ (m.n = "+" /\ 2 \in S) \/ (m.n = "peek" /\ 3 \in S))
InitM == Method("__init__", TRUE, <<Param("q1", "Int", Absent), Param("q2", "Int", I(2))>>, "", <<>>, <<FAssign(Var("self"), "g", Bin("+", Var("q1"), Var("q2")))>>)

TopFuns == << Fun("tf", <<Param("a", "Int", Absent), Param("b", "Str", StrL("d"))>>, "Int", <<>>, <<Expr(Var("a"))>>),
              [Fun("vf", <<[n |-> "xs", ty |-> "Int", d |-> Absent, vararg |-> TRUE]>>, "Int", <<>>, <<Expr(I(0))>>) EXCEPT !.n = "vf"] >>

\* member order is part of the shape: "mf" = methods first in the source, "fm" = fields first (the renderer prints fields before
\* methods; "mf" is expressed by giving the methods as `fields` of kind fun - see lib/render.py `members`)
Shape(args, explicitInit, parents, nf, ms, order) ==
    [ k |-> "class", n |-> "K", args |-> args, parents |-> parents,
      fields |-> (IF explicitInit THEN <<Def("g", TRUE, "Int", Absent)>> ELSE <<>>) \o SubSeq(Fields, 1, nf),
      methods |-> (IF explicitInit THEN <<InitM>> ELSE <<>>) \o MethodsOf(ms), order |-> order ]

Shapes ==
    { Shape(CArgs(s), FALSE, ps, nf, ms, order) : s \in {x \in ArgSeqs : ValidArgs(x)}, ps \in ParentChoices(TRUE), nf \in 0..2, ms \in MethodSets, order \in {"fm", "mf"} }
    \cup { Shape(<<>>, TRUE, ps, nf, ms, order) : ps \in ParentChoices(FALSE), nf \in 0..2, ms \in MethodSets, order \in {"fm", "mf"} }
\* member ORDER: every order of two fields, a named method and two operator methods in the class body (the generator rebuilds the
\* body through a map keyed by name and sorts it: C17 - the members survive; C12 - the order does not depend on the run)
OrderMembers == [fields |-> <<Def("f1", TRUE, "Int", I(1)), Def("f2", FALSE, "Str", StrL("s"))>>,
                 methods |-> <<MPlain, Method("+", TRUE, <<Param("other", "Int", Absent)>>, "Int", <<>>, <<Expr(Var("other"))>>),
                               Method("<", TRUE, <<Param("other", "Int", Absent)>>, "Bool", <<>>, <<Expr(BoolL(TRUE))>>)>>]
Perms5 == {q \in [1..5 -> 1..5] : \A a, b \in 1..5 : a # b => q[a] # q[b]}
OrderShapes == { [k |-> "class", n |-> "K", args |-> args, parents |-> <<>>, fields |-> OrderMembers.fields, methods |-> OrderMembers.methods, order |-> q]
                 : q \in Perms5, args \in {<<>>, <<CArg("p1", TRUE, TRUE, "Int", Absent)>>} }
\* type refinement as in the README: the class arguments start with an explicit `self: Base1` (and Base1 is a parent)
SelfShapes == { [sh EXCEPT !.args = <<CArg("self", FALSE, TRUE, "Base1", Absent)>> \o sh.args]
                : sh \in { Shape(CArgs(s), FALSE, ps, nf, ms, "fm") : s \in {x \in ArgSeqs : ValidArgs(x)},
                            ps \in {<<Parent("Base1", <<>>)>>}, nf \in {0, 2}, ms \in {{}, {1, 3}} } }
WellFormedShape(c) == \A j \in 1..Len(c.parents) : \A a \in 1..Len(c.parents[j].args) :
                          c.parents[j].args[a].k = "var" => Len(c.args) >= 1
\* every operator, in its symbol form and under its dunder name, alone and paired with its neighbour (members keyed by emitted name)
SymOps == {"+", "-", "*", "/", "//", "mod", "^", "=", "!=", "<", "<=", ">", ">="}
DunderNames == {"__add__", "__sub__", "__mul__", "__truediv__", "__floordiv__", "__mod__", "__pow__", "__eq__", "__ne__", "__lt__", "__le__", "__gt__", "__ge__",
                "__str__", "__len__", "__contains__", "__getitem__", "__iter__", "__next__", "__bool__", "__neg__", "__hash__"}
OpM(n) == Method(n, TRUE, <<Param("other", "Int", Absent)>>, "Int", <<>>, <<Expr(I(1))>>)
OpNames == (SymOps \ {"<="}) \cup DunderNames          \* ("def <=" is not expressible in the symbol form today)
OpClasses == { Class("K", <<>>, <<>>, <<>>, <<OpM(n)>>) : n \in OpNames }
             \cup { Class("K", <<>>, <<>>, <<>>, <<OpM(a), OpM(b)>>) : a \in {"<", "__lt__", ">", "__gt__", "=", "+"}, b \in {"__le__", "__ge__", "__ne__", "__eq__", "-"} }
OpCases == { [prop |-> "C17", kind |-> "operator-names", ctx |-> <<>>, hoist |-> FALSE, prog |-> Prog(<<c>>)] : c \in OpClasses }
Cases == OpCases \cup { [prop |-> "C17", kind |-> "class-shape", ctx |-> <<>>, hoist |-> FALSE, prog |-> Prog(<<Base1, Base2>> \o TopFuns \o <<c>>)] : c \in {x \in Shapes \cup SelfShapes : WellFormedShape(x)} }
         \cup { [prop |-> "C17", kind |-> "member-order", ctx |-> <<>>, hoist |-> FALSE, prog |-> Prog(<<c>>)] : c \in OrderShapes }
VARIABLE c
Init == Part = "shapes" /\ c \in Cases
Next == UNCHANGED c
Emit == PrintT("@@" \o ToJson(c))
=====================================================================================
