------------------------------------- MODULE ClosedJudge -------------------------------------
(* C16, role R3 (emitted modules): [acc, parses, unbound |-> names read but bound nowhere (not builtins),            *)
(* source_free |-> names the source itself leaves free, problems |-> import problems (duplicate, not at the top),       *)
(* user_imports |-> the import bindings of the source (module|name|alias), imports |-> those of the emitted module;            *)
(* support_used |-> support names the module references, support_imported |-> support names its imports bind]            *)
EXTENDS Naturals, Sequences, FiniteSets, TLC, Json, IOUtils
Rec == ndJsonDeserialize(IOEnv.TRACE)
AsSet(s) == {s[j] : j \in 1..Len(s)}
Judge(o) == IF ~o.acc THEN "skip:rejected" ELSE IF ~o.parses THEN "skip:does-not-parse"
            ELSE IF ~(AsSet(o.unbound) \subseteq AsSet(o.source_free)) THEN "violation:name-used-but-not-imported-or-defined"
            ELSE IF Len(o.problems) > 0 THEN "violation:support-import-duplicated-or-not-at-the-top"
            ELSE IF ~(AsSet(o.support_used) \subseteq AsSet(o.support_imported) \cup AsSet(o.source_free) \cup AsSet(o.source_names)) THEN "violation:support-name-used-without-import"
            ELSE IF ~(AsSet(o.user_imports) \subseteq AsSet(o.imports)) THEN "violation:user-import-not-reproduced"
            ELSE "ok"
VARIABLE r
Init == r \in 1..Len(Rec)
Next == UNCHANGED r
Report == PrintT("@@" \o ToJson([id |-> Rec[r].id, v |-> Judge(Rec[r])]))
=====================================================================================
