INIT Init
NEXT Next
CONSTANT MaxLines = 40
INVARIANT Emit
CHECK_DEADLOCK FALSE
