----------------------------------- MODULE MC_C07 -----------------------------------
(* C07 immutability.  Functions are declared at top level (a nested `def f` is not callable today).       *)
(*  Grid: definition form x fin/mutable x write kind (:= / +=) x how the binding is      *)
(* reached (directly, through a receiver, through self; receiver / self fin or not) x shadowing pattern,   *)
(* under every context nesting, definition inside or hoisted outside the nesting.                          *)
(* Expected verdict (MambaStatic.WriteOK): a write is accepted iff the binding it reaches is defined and   *)
(* mutable and every receiver on the way is mutable.  A for-loop variable is not declared with `fin` or    *)
(* without, the documentation leaves it open: both verdicts are allowed there.                             *)
EXTENDS MambaStatic, Json

CONSTANTS Depth, Part     \* Part: "var" | "member" | "shadow"

Probe(kind, decls, setup, stmts, writes, expect, note) ==
    [kind |-> kind, decls |-> decls, setup |-> setup, stmts |-> stmts, writes |-> writes, expect |-> expect, note |-> note]

WriteS(w, target) == IF w = "assign" THEN Assign(target, IntL(2)) ELSE Aug("+", target, IntL(1))
FWriteS(w, recv, f) == IF w = "assign" THEN FAssign(recv, f, IntL(2)) ELSE FAug("+", recv, f, IntL(1))
FinStr(mut) == IF mut THEN "" ELSE "fin "

VarProbes ==
    { Probe("fin-var", <<>>,
            <<CASE form = "plain" -> Def("x", mut, "", IntL(1)) [] form = "annotated" -> Def("x", mut, "Int", IntL(1))
                [] form = "tuple" -> DefTup(<<"x", "y">>, mut, TupL(<<IntL(1), IntL(2)>>))>>,
            <<WriteS(w, "x")>>, TRUE, Verdict(WriteOK(TRUE, mut, TRUE)), [form |-> form, mutable |-> mut, write |-> w, defined |-> TRUE, recv_mutable |-> TRUE])
      : form \in {"plain", "annotated", "tuple"}, mut \in BOOLEAN, w \in {"assign", "aug"} }
  \cup
    { Probe("fin-undefined", <<>>, <<>>, <<WriteS(w, "zz")>>, FALSE, Verdict(WriteOK(FALSE, TRUE, TRUE)),
            [form |-> "undefined", mutable |-> TRUE, write |-> w, defined |-> FALSE, recv_mutable |-> TRUE])
      : w \in {"assign", "aug"} }
  \cup  \* function parameter: the write happens in the function body; the context wraps the body
    { Probe("fin-param", <<Fun("f", <<Param(FinStr(mut) \o "x", "Int", Absent)>>, "", <<>>, <<WriteS(w, "x")>>)>>, <<>>,
            <<Expr(Call("f", <<IntL(1)>>))>>, FALSE,
            Verdict(WriteOK(TRUE, mut, TRUE)), [form |-> "param", mutable |-> mut, write |-> w, defined |-> TRUE, recv_mutable |-> TRUE])
      : mut \in BOOLEAN, w \in {"assign", "aug"} }
  \cup
    { Probe("fin-loopvar", <<>>, <<>>, <<For("x", Range(IntL(0), IntL(2), FALSE, Absent), <<WriteS(w, "x")>>)>>, FALSE, "either",
            [form |-> "loopvar", mutable |-> TRUE, write |-> w, defined |-> TRUE, recv_mutable |-> TRUE])
      : w \in {"assign", "aug"} }

\* class members: a class-body field or a `def` class argument, written through a receiver variable or through self
KClass(member, mut, via, w) ==
    Class("K", IF member = "classarg" THEN <<CArg("x", TRUE, mut, "Int", Absent)>> ELSE <<>>, <<>>,
          IF member = "field" THEN <<Def("x", mut, "Int", IntL(1))>> ELSE <<>>,
          IF via \in {"self", "finself"} THEN <<Method("m", via = "self", <<>>, "", <<>>, <<FWriteS(w, Var("self"), "x")>>)>> ELSE <<>>)
NewK(member) == New("K", IF member = "classarg" THEN <<IntL(1)>> ELSE <<>>)
MemberProbes ==
    { Probe("fin-member", <<KClass(member, mut, via, w)>>,
            IF via \in {"recv", "finrecv"} THEN <<Def("k", via = "recv", "", NewK(member))>> ELSE <<>>,
            IF via \in {"recv", "finrecv"} THEN <<FWriteS(w, Var("k"), "x")>> ELSE <<Expr(MCall(NewK(member), "m", <<>>))>>,
            via \in {"recv", "finrecv"}, Verdict(WriteOK(TRUE, mut, via \in {"recv", "self"})),
            [form |-> member, mutable |-> mut, write |-> w, defined |-> TRUE, recv_mutable |-> via \in {"recv", "self"}, via |-> via])
      : member \in {"field", "classarg"}, mut \in BOOLEAN, via \in {"recv", "finrecv", "self", "finself"}, w \in {"assign", "aug"} }

\* shadowing: which binding does the write reach?
D(mut, v) == Def("x", mut, "", IntL(v))
HDecls == <<Class("E1", <<>>, <<Parent("Exception", <<>>)>>, <<>>, <<>>), Class("E2", <<>>, <<Parent("Exception", <<>>)>>, <<>>, <<>>),
           Fun("rE1", <<>>, "Int", <<"E1", "E2">>, <<Raise("E1", <<>>)>>)>>
\* a two-armed match / handle whose arms in S hold the statements b (the others: pass)
MatchOn(S, b)  == Match(IntL(1), <<Arm(IntL(1), IF 1 \in S THEN b ELSE <<Pass>>), Arm(Wild, IF 2 \in S THEN b ELSE <<Pass>>)>>)
HandleOn(S, b) == Handle(Expr(Call("rE1", <<>>)), <<HArm("E1", "e", IF 1 \in S THEN b ELSE <<Pass>>), HArm("E2", "e", IF 2 \in S THEN b ELSE <<Pass>>)>>)
ShadowProbes ==
    UNION { { Probe("fin-shadow", <<>>, <<>>, sh[2], FALSE, Verdict(sh[3]), [form |-> sh[1], mutable |-> sh[3], write |-> w, defined |-> TRUE, recv_mutable |-> TRUE])
      : sh \in { <<"fin-then-mut", <<D(FALSE, 1), D(TRUE, 2), WriteS(w, "x")>>, TRUE>>,
                 <<"mut-then-fin", <<D(TRUE, 1), D(FALSE, 2), WriteS(w, "x")>>, FALSE>>,
                 <<"inner-mut-then-outer-fin", <<D(FALSE, 1), If(BoolL(TRUE), <<D(TRUE, 2), WriteS(w, "x")>>, <<>>), WriteS(w, "x")>>, FALSE>>,
                 <<"inner-mut-of-outer-fin", <<D(FALSE, 1), If(BoolL(TRUE), <<D(TRUE, 2), WriteS(w, "x")>>, <<>>)>>, TRUE>>,
                 <<"outer-mut-after-inner-fin", <<D(TRUE, 1), If(BoolL(TRUE), <<D(FALSE, 2)>>, <<>>), WriteS(w, "x")>>, TRUE>>,
                 <<"inner-fin-of-outer-mut", <<D(TRUE, 1), If(BoolL(TRUE), <<D(FALSE, 2), WriteS(w, "x")>>, <<>>)>>, FALSE>>,
                 <<"loop-inner-mut-of-outer-fin", <<D(FALSE, 1), For("i", Range(IntL(0), IntL(1), FALSE, Absent), <<D(TRUE, 2), WriteS(w, "x")>>)>>, TRUE>>,
                 <<"outer-fin-after-loop-inner-mut", <<D(FALSE, 1), For("i", Range(IntL(0), IntL(1), FALSE, Absent), <<D(TRUE, 2)>>), WriteS(w, "x")>>, FALSE>> } }
      : w \in {"assign", "aug"} }
  \cup \* the arms of a match and of a handle are scopes too: what the FIRST, the LAST or every arm defines is gone behind the construct
    UNION { { Probe("fin-shadow", IF sh[4] THEN HDecls ELSE <<>>, <<>>, sh[2], FALSE, Verdict(sh[3]), [form |-> sh[1], mutable |-> sh[3], write |-> w, defined |-> TRUE, recv_mutable |-> TRUE])
      : sh \in UNION { { <<"match-arm-" \o a[1] \o "-mut-then-outer-fin", <<D(FALSE, 1), MatchOn(a[2], <<D(TRUE, 2), WriteS(w, "x")>>), WriteS(w, "x")>>, FALSE, FALSE>>,
                         <<"match-arm-" \o a[1] \o "-mut-of-outer-fin",   <<D(FALSE, 1), MatchOn(a[2], <<D(TRUE, 2), WriteS(w, "x")>>)>>, TRUE, FALSE>>,
                         <<"outer-mut-after-match-arm-" \o a[1] \o "-fin", <<D(TRUE, 1), MatchOn(a[2], <<D(FALSE, 2)>>), WriteS(w, "x")>>, TRUE, FALSE>>,
                         <<"match-arm-" \o a[1] \o "-fin-of-outer-mut",   <<D(TRUE, 1), MatchOn(a[2], <<D(FALSE, 2), WriteS(w, "x")>>)>>, FALSE, FALSE>>,
                         <<"handle-arm-" \o a[1] \o "-mut-then-outer-fin", <<D(FALSE, 1), HandleOn(a[2], <<D(TRUE, 2), WriteS(w, "x")>>), WriteS(w, "x")>>, FALSE, TRUE>>,
                         <<"handle-arm-" \o a[1] \o "-mut-of-outer-fin",   <<D(FALSE, 1), HandleOn(a[2], <<D(TRUE, 2), WriteS(w, "x")>>)>>, TRUE, TRUE>>,
                         <<"outer-mut-after-handle-arm-" \o a[1] \o "-fin", <<D(TRUE, 1), HandleOn(a[2], <<D(FALSE, 2)>>), WriteS(w, "x")>>, TRUE, TRUE>>,
                         <<"handle-binder-then-outer-fin", <<D(FALSE, 1), Handle(Expr(Call("rE1", <<>>)), <<HArm("E1", "x", <<Pass>>)>>), WriteS(w, "x")>>, FALSE, TRUE>> }
                       : a \in {<<"first", {1}>>, <<"last", {2}>>, <<"every", {1, 2}>>} } }
      : w \in {"assign", "aug"} }
  \cup \* ... and a name that only an arm defines is not defined behind the construct
    UNION { { Probe("fin-undefined", IF sh[2] THEN HDecls ELSE <<>>, <<>>, sh[1], FALSE, Verdict(FALSE), [form |-> "undefined-after-arm", mutable |-> TRUE, write |-> w, defined |-> FALSE, recv_mutable |-> TRUE])
      : sh \in UNION { { <<<<MatchOn(a, <<D(TRUE, 2)>>), WriteS(w, "x")>>, FALSE>>, <<<<HandleOn(a, <<D(TRUE, 2)>>), WriteS(w, "x")>>, TRUE>> } : a \in {{1}, {2}, {1, 2}} } }
      : w \in {"assign", "aug"} }

Probes == CASE Part = "var" -> VarProbes [] Part = "member" -> MemberProbes [] Part = "shadow" -> ShadowProbes

Cases == { [prop |-> "C07", kind |-> p.kind, ctx |-> ctx, hoist |-> h, expect |-> p.expect, note |-> p.note, prog |-> Plug(ctx, h, p)]
           : p \in Probes, ctx \in Ctxs(Wrappers, Depth), h \in BOOLEAN }
VARIABLE c
Init == c \in { x \in Cases : x.hoist => Len(x.ctx) > 0 /\ x.kind \in {"fin-var", "fin-member"} /\ ~FunBoundary(x.ctx)
                                          /\ (x.kind = "fin-member" => x.note.via \in {"recv", "finrecv"}) }
Next == UNCHANGED c
Emit == PrintT("@@" \o ToJson(c))
=====================================================================================
