---------------------------------- MODULE SessionJudge ----------------------------------
(* C12, role R3.  Records:                                                                                     *)
(*  kind "history": [history |-> <<i..>>, resp |-> <<r..>>, iso |-> <<isolated response of each pool input>>]   *)
(*  kind "repeat" : [input, iso |-> isolated response, seen |-> all distinct responses observed for this input  *)
(*                   over repetitions in one process, concurrent threads and fresh processes]                   *)
EXTENDS Naturals, Sequences, FiniteSets, TLC, Json, IOUtils
Rec == ndJsonDeserialize(IOEnv.TRACE)
Deterministic(h, resp, iso) == \A k \in 1..Len(h) : resp[k] = iso[h[k]]
Judge(o) == IF o.kind = "history"
            THEN (IF Deterministic(o.history, o.resp, o.iso) THEN "ok" ELSE "violation:response-depends-on-earlier-requests")
            ELSE (IF \A j \in 1..Len(o.seen) : o.seen[j] = o.iso THEN "ok" ELSE "violation:response-differs-between-runs")
VARIABLE r
Init == r \in 1..Len(Rec)
Next == UNCHANGED r
Report == PrintT("@@" \o ToJson([id |-> Rec[r].id, v |-> Judge(Rec[r])]))
=====================================================================================
