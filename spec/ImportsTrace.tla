------------------------------------ MODULE ImportsTrace ------------------------------------
(* C16, role R3 (exact replay): every operation sequence emitted by Imports.tla was replayed on the REAL Imports  *)
(* object; after each operation the real object's rendered import lines were recorded.  The trace is accepted iff  *)
(* stepping the specification through the same operations yields the same lines after every step.                 *)
EXTENDS Imports, IOUtils
Rec == ndJsonDeserialize(IOEnv.TRACE)
VARIABLES r, l, v
TInit == Init /\ r \in 1..Len(Rec) /\ l = 0 /\ v = "run"
Step == /\ v = "run" /\ l < Len(Rec[r].ops)
        /\ LET o == Rec[r].ops[l + 1] IN
           /\ IF o.op = "import" THEN AddImport(o.m) ELSE AddFrom(o.m, o.n)
           /\ hist' = Append(hist, o)
        /\ l' = l + 1
        /\ v' = IF RenderLines' = Rec[r].lines[l + 1] THEN (IF l + 1 = Len(Rec[r].ops) THEN "ok" ELSE "run")
                ELSE "violation:import-lines-differ-after-step"
        /\ UNCHANGED r
Empty == v = "run" /\ Len(Rec[r].ops) = 0 /\ v' = "ok" /\ UNCHANGED <<r, l, plain, from, hist>>
TNext == Step \/ Empty
Report == v # "run" => PrintT("@@" \o ToJson([id |-> Rec[r].id, v |-> v, l |-> l]))
=====================================================================================
