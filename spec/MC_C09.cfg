INIT InitC
NEXT Next
INVARIANT TableAgreesWithAnalysis
INVARIANT Emit
CHECK_DEADLOCK FALSE
