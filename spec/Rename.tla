-------------------------------------- MODULE Rename --------------------------------------
(* C15: renamings.  A renaming is a single-name substitution  [kind, index, to]  (the index-th user name of that kind, in   *)
(* order of first occurrence, is renamed to `to`) or the total renaming "fresh" (every user name gets a fresh ordinary name). *)
(* Targets contain ordinary names and names that collide with identifiers the generator itself emits or special-cases.        *)
(* The documented specials (self; init / __init__ as constructor; operator names) are not used as targets for the kinds for    *)
(* which the language documents them.                                                                                           *)
EXTENDS Naturals, Sequences, TLC, Json
CONSTANT MaxNames
\* (names of the language's own vocabulary - built-in types List, Set, Dict, Tuple, Any, Callable, Int .. and the built-in functions print, input -
\* are not "fresh legal names" and are not targets)
\* (character classes of names: every digit, both cases, leading / trailing / double underscores)
LowerTargets == {"v9", "x0y", "n_29", "a1b2c3d4e5f6g7h8i9j0", "camelCase9", "_lead", "trail_", "a__b", "s", "se", "sel", "plain_rn", "size", "init", "super", "math", "typing", "abc", "str", "int", "range", "slice", "selfie", "len", "id", "list", "ann"}
ClassTargets == {"Cls9", "C0x", "ALLCAPS", "Plain_Rn", "Optional", "Union", "ABC", "NewType", "Exception2", "Int2", "Generic", "Typing", "Math"}
Targets(kind) == CASE kind = "class" -> ClassTargets
                   [] kind = "method" -> LowerTargets \ {"init"}          \* init is the documented constructor name
                   [] OTHER -> LowerTargets
Kinds == {"var", "fun", "class", "field", "method"}
Renamings == {[kind |-> "all", index |-> 0, to |-> "fresh"]}
             \cup UNION { {[kind |-> k, index |-> i, to |-> t] : i \in 1..MaxNames, t \in Targets(k)} : k \in Kinds }
\* C02: words that mean something in the TARGET language (reserved words, literals) put at every kind of user-name position:
\* the program must be rejected or the emitted module must still compile.
PyWords == {"lambda", "del", "try", "yield", "global", "nonlocal", "assert", "async", "await", "elif", "except", "finally", "None", "True", "False", "case", "exec", "print_", "object"}
WordRenamings == UNION { {[kind |-> k, index |-> i, to |-> t] : i \in 1..MaxNames, t \in PyWords} : k \in Kinds }
VARIABLE x
Init == x = 0
Next == UNCHANGED x
\* prefix pairs: the i-th and the j-th name of a kind become  p  and  p_count  (one user name a proper prefix of another)
PrefixPairs == {[kind |-> k, index |-> i, to |-> "<prefix-pair>", other |-> j] : k \in {"var", "field", "fun"}, i \in 1..MaxNames, j \in 1..MaxNames}
\* merge pairs (only applied to the programs of spec/MC_C15.tla whose kind starts with "sibling"): the i-th variable takes the name of the j-th
MergePairs == {[kind |-> "var", index |-> i, to |-> "<same-as>", other |-> j] : i \in 1..7, j \in 1..7}
Emit == PrintT("@@" \o ToJson([renamings |-> {r \in Renamings : r.to \in Targets(r.kind) \/ r.kind = "all"}, prefix_pairs |-> {r \in PrefixPairs : r.index # r.other}, word_renamings |-> WordRenamings, merge_pairs |-> {r \in MergePairs : r.index # r.other}]))
=====================================================================================
