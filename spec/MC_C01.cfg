INIT Init
NEXT Next
INVARIANT ModelRuns
INVARIANT Emit
CHECK_DEADLOCK FALSE
