INIT Init
NEXT Next
INVARIANT RoundTripInv
INVARIANT Emit
CHECK_DEADLOCK FALSE
