----------------------------------- MODULE MC_C01 -----------------------------------
(* C01 (and the program family of C04 / C11 / C02 / C15-C17): value probes - small fragments that print     *)
(* what they compute - for every construct the property names, plugged under every context nesting.        *)
(* R1: every plugged program stays inside the reference semantics (Run ends "ok" or with the intended      *)
(* uncaught exception, never "wrong", never out of fuel) - this validates the probes and the evaluator     *)
(* against each other before anything is compared with the implementation.                                 *)
EXTENDS MambaDynamic, Json

CONSTANTS Depth, Part     \* Part: "ops" | "control" | "functions" | "classes" | "errors"

Probe(name, decls, setup, stmts, writes) == [name |-> name, decls |-> decls, setup |-> setup, stmts |-> stmts, writes |-> writes]
P(e) == PrintS(e)
I(n) == IntL(n)
V(n) == Var(n)
T(x) == StrL(x)
DI(n, v) == Def(n, TRUE, "Int", I(v))

----------------------------------------------------------------------------------------
Pairs == {<<7, 2>>, <<-7, 2>>, <<7, -2>>, <<0, 3>>, <<9, 3>>}
OpProbes ==
    { Probe("arith " \o op, <<>>, <<DI("a", p[1]), DI("b", p[2])>>, <<P(Bin(op, V("a"), V("b")))>>, FALSE)
      : op \in {"+", "-", "*", "//", "mod"}, p \in Pairs }
  \cup { Probe("power", <<>>, <<DI("a", p[1]), DI("b", p[2])>>, <<P(Bin("^", V("a"), V("b")))>>, FALSE) : p \in {<<2, 3>>, <<-2, 3>>, <<5, 0>>} }
  \cup { Probe("compare " \o op, <<>>, <<DI("a", p[1]), DI("b", p[2])>>, <<P(Bin(op, V("a"), V("b")))>>, FALSE)
         : op \in {"<", "<=", ">", ">=", "="}, p \in {<<1, 2>>, <<2, 2>>, <<3, 2>>} }
  \* (compound expressions are printed through a typed temporary: today's checker cannot infer `print(-(a + b))`)
  \cup { Probe("grouping", <<>>, <<DI("a", 10), DI("b", 3), DI("c", 2)>>, <<Def("r", TRUE, IF e.k = "bin" /\ e.op = "<" THEN "Bool" ELSE "Int", e), P(V("r"))>>, FALSE)
         : e \in { Bin("-", V("a"), Bin("-", V("b"), V("c"))), Bin("-", Bin("-", V("a"), V("b")), V("c")),
                   Bin("*", Bin("+", V("a"), V("b")), V("c")), Bin("+", V("a"), Bin("*", V("b"), V("c"))),
                   Bin("//", V("a"), Bin("//", V("b"), V("c"))), Bin("//", Bin("//", V("a"), V("b")), V("c")),
                   Bin("^", V("c"), Bin("^", V("b"), V("c"))), Bin("^", Bin("^", V("c"), V("b")), V("c")),
                   Neg(Bin("+", V("a"), V("b"))), Bin("-", V("a"), Neg(V("b"))), Bin("mod", Bin("*", V("a"), V("b")), V("c")),
                   Bin("*", V("a"), Bin("mod", V("b"), V("c"))), Bin("<", Bin("+", V("a"), V("b")), Bin("*", V("b"), V("c"))) } }
  \cup { Probe("logic", <<>>, <<Def("t", TRUE, "Bool", BoolL(TRUE)), Def("f", TRUE, "Bool", BoolL(FALSE))>>, <<P(e)>>, FALSE)
         : e \in { Bin("and", V("t"), V("f")), Bin("or", V("f"), V("t")), Not(V("t")), Not(Bin("and", V("t"), V("f"))),
                   Bin("and", Not(V("f")), V("t")), Bin("or", Bin("and", V("t"), V("f")), V("t")), Bin("and", V("t"), Bin("or", V("f"), V("f"))),
                   Bin("or", Not(V("t")), Not(V("f"))) } }
  \cup { Probe("strings", <<Fun("twice_s", <<Param("w", "Str", Absent)>>, "Str", <<>>, <<Expr(Bin("+", V("w"), V("w")))>>)>>, <<Def("s", TRUE, "Str", StrL("ab")), DI("n", 5)>>, <<P(e)>>, FALSE)
         : e \in { Bin("+", V("s"), StrL("cd")), FStr(<<T("n is "), V("n"), T("!")>>), FStr(<<V("s"), V("s")>>), Bin("+", FStr(<<T("x"), V("n")>>), V("s")),
                   \* interpolated EXPRESSIONS: operators whose spelling differs between the two languages, a string literal inside, a call
                   FStr(<<T("p="), Bin("^", V("n"), I(2)), T(" m="), Bin("mod", V("n"), I(3)), T(" d="), Bin("//", V("n"), I(2))>>),
                   FStr(<<T("e="), Bin("=", V("n"), I(5)), T(" ne="), Not(Bin("=", V("n"), I(5))), T(" a="), Bin("and", Bin(">", V("n"), I(1)), Bin("<", V("n"), I(3)))>>),
                   FStr(<<T("s="), Bin("+", V("s"), T("z")), T(" c="), Call("twice_s", <<V("s")>>), T(".")>>),
                   FStr(<<T("grouping "), Bin("-", V("n"), Bin("-", V("n"), I(1)))>>) } }
  \cup { Probe("ifexpr", <<>>, <<DI("a", p)>>, <<Def("z", TRUE, "Str", IfE(Bin(">", V("a"), I(3)), StrL("big"), StrL("small"))), P(V("z")),
                                                 Def("w", TRUE, "Int", IfE(Bin("=", V("a"), I(3)), I(1), IfE(Bin("<", V("a"), I(3)), I(2), I(3)))), P(V("w")),
                                                 \* a conditional in the THEN position of another one (every truth combination over p)
                                                 Def("x", TRUE, "Int", IfE(Bin(">", V("a"), I(4)), IfE(Bin(">", V("a"), I(0)), I(5), I(9)), I(0))), P(V("x")),
                                                 Def("y", TRUE, "Int", IfE(Bin("<", V("a"), I(2)), IfE(Bin("<", V("a"), I(4)), I(6), I(7)), I(8))), P(V("y"))>>, FALSE) : p \in {1, 3, 5} }
         \* (a conditional as the CONDITION of another one cannot be inferred today)
  \* the block form of the conditional as right-hand side of a definition (typed, untyped, tuple of targets)
  \cup { Probe("ifexpr-block", <<>>, <<DI("a", p)>>, <<Def("z", TRUE, ty, IfEB(Bin(">", V("a"), I(3)), StrL("big"), StrL("small"))), P(V("z"))>>, FALSE) : p \in {1, 5}, ty \in {"Str", ""} }
  \cup { Probe("ifexpr-block-tuple", <<>>, <<DI("a", p)>>, <<DefTup(<<"m", "n">>, TRUE, IfEB(Bin("<", V("a"), I(3)), TupL(<<I(1), StrL("s")>>), TupL(<<I(2), StrL("t")>>))),
                                                             P(Bin("+", V("m"), I(1))), Def("q", TRUE, "Str", V("n")), P(V("q"))>>, FALSE) : p \in {1, 5} }
         \* (print(n) directly, or a second block-form definition before this one, is not inferable today; the inline form is)
  \cup { Probe("default", <<>>, <<Def("n", TRUE, "Int?", e), DI("d", 7)>>, <<Def("w", TRUE, "Int", QDef(V("n"), V("d"))), P(V("w"))>>, FALSE) : e \in {NoneL, I(4)} }
  \cup { Probe("collections", <<>>, <<Def("l", TRUE, "", ListL(<<I(4), I(5), I(6)>>))>>,
               <<P(Index(V("l"), I(1))), P(V("l")), DefTup(<<"p", "q">>, TRUE, TupL(<<I(1), StrL("s")>>)), P(V("q")), P(V("p"))>>, FALSE) }

  \* list builders: element expression, iterable (list / range), zero to two conditions (an `or` among several is one unit)
  \cup { Probe("builder", <<>>, <<Def("l", TRUE, "", ListL(<<I(1), I(2), I(3), I(4)>>)), DI("k", 2)>>, <<Def("m", TRUE, "List[Int]", b), P(V("m"))>>, FALSE)
         : b \in { ListB(Bin("*", V("x"), I(2)), "x", V("l"), <<>>),
                   ListB(Bin("+", V("x"), V("k")), "x", V("l"), <<Bin(">", V("x"), I(1))>>),
                   ListB(V("x"), "x", V("l"), <<Bin(">", V("x"), I(1)), Bin("<", V("x"), I(4))>>),
                   ListB(V("x"), "x", V("l"), <<Bin("or", Bin(">", V("x"), I(3)), Bin("<", V("x"), I(2))), Bin(">", V("x"), I(0))>>),
                   ListB(V("x"), "x", V("l"), <<Bin("or", Bin(">", V("x"), I(3)), Bin("<", V("x"), I(2)))>>),
                   ListB(Bin("^", V("x"), I(2)), "x", Range(I(0), I(3), TRUE, Absent), <<>>),
                   ListB(Bin("-", V("x"), Bin("-", V("k"), I(1))), "x", Range(I(5), I(0), FALSE, Neg(I(2))), <<Bin("!=", V("x"), I(3))>>),
                   ListB(IfE(Bin(">", V("x"), I(2)), I(1), I(0)), "x", V("l"), <<>>) } }

----------------------------------------------------------------------------------------
RangeCases == { <<0, 3, 0>>, <<1, 4, 0>>, <<0, 6, 2>>, <<0, 7, 3>>, <<5, 0, -1>>, <<6, 0, -2>>, <<3, 3, 0>>, <<4, 2, 0>>, <<2, 2, -1>> }   \* step 0 = absent
ControlProbes ==
    { Probe("for-range", <<>>, <<>>, <<For("i", Range(I(c[1]), I(c[2]), incl, IF c[3] = 0 THEN Absent ELSE I(c[3])), <<P(V("i"))>>), P(StrL("end"))>>, FALSE)
      : c \in RangeCases, incl \in BOOLEAN }
  \cup { Probe("for-range-vars", <<>>, <<DI("lo", 1), DI("hi", 4)>>, <<For("i", Range(V("lo"), Bin("+", V("hi"), I(1)), incl, Absent), <<P(Bin("*", V("i"), V("i")))>>)>>, FALSE) : incl \in BOOLEAN }
  \* steps that are not literals: the direction of the range is only known at run time
  \cup { Probe("for-range-step-expr", <<>>, <<DI("s", q[1])>>, <<For("i", Range(I(q[3]), I(q[4]), incl, q[2]), <<P(V("i"))>>), P(StrL("end"))>>, FALSE)
         : incl \in BOOLEAN,
           q \in { <<2, V("s"), 0, 6>>, <<-2, V("s"), 6, 0>>, <<-2, Neg(V("s")), 0, 6>>, <<2, Neg(V("s")), 6, 0>>, <<1, Neg(Neg(V("s"))), 0, 3>>,
                   <<3, Bin("-", I(0), V("s")), 7, 0>>, <<-3, Bin("-", I(0), V("s")), 0, 7>>, <<2, Bin("*", V("s"), Neg(I(1))), 5, 1>>, <<1, Bin("+", V("s"), I(1)), 0, 6>> } }
  \cup { Probe("for-list", <<>>, <<Def("l", TRUE, "", ListL(<<I(3), I(1), I(2)>>))>>, <<For("e", V("l"), <<P(Bin("*", V("e"), I(2)))>>)>>, FALSE) }
  \cup { Probe("for-accumulate", <<>>, <<DI("acc", 0)>>, <<For("i", Range(I(1), I(4), TRUE, Absent), <<Assign("acc", Bin("+", V("acc"), V("i")))>>), P(V("acc"))>>, TRUE) }
  \cup { Probe("while", <<>>, <<DI("n", 3)>>, <<While(Bin(">", V("n"), I(0)), <<P(V("n")), Assign("n", Bin("-", V("n"), I(1)))>>), P(V("n"))>>, TRUE) }
  \cup { Probe("while-aug", <<>>, <<DI("n", 0)>>, <<While(Bin("<", V("n"), I(5)), <<Aug("+", "n", I(2))>>), P(V("n"))>>, TRUE) }
  \cup { Probe("if-stmt", <<>>, <<DI("a", p)>>, <<If(Bin(">", V("a"), I(3)), <<P(StrL("big"))>>, <<P(StrL("small"))>>),
                                                  If(Bin("=", V("a"), I(3)), <<P(StrL("three"))>>, <<>>),
                                                  If(Bin("<", V("a"), I(2)), <<P(I(1))>>, <<If(Bin("<", V("a"), I(4)), <<P(I(2))>>, <<P(I(3))>>)>>)>>, FALSE) : p \in {1, 3, 5} }
  \cup { Probe("match-stmt", <<>>, <<DI("a", p)>>, <<Match(V("a"), <<Arm(I(1), <<P(StrL("one"))>>), Arm(I(2), <<P(StrL("two"))>>), Arm(Wild, <<P(StrL("many"))>>)>>)>>, FALSE) : p \in {1, 2, 3} }
  \cup { Probe("match-binder", <<>>, <<DI("a", p)>>, <<Match(V("a"), <<Arm(I(0), <<P(StrL("zero"))>>), Arm(Var("n"), <<P(Bin("+", V("n"), I(1)))>>)>>)>>, FALSE) : p \in {0, 4} }
  \cup { Probe("match-str", <<>>, <<Def("s", TRUE, "Str", StrL(p))>>, <<Match(V("s"), <<Arm(StrL("a"), <<P(I(1))>>), Arm(Wild, <<P(I(2))>>)>>)>>, FALSE) : p \in {"a", "b"} }
  \cup { Probe("assign-forms", <<>>, <<DI("x", 5)>>, <<Aug("+", "x", I(2)), P(V("x")), Aug("-", "x", I(1)), P(V("x")), Aug("*", "x", I(3)), P(V("x")), Assign("x", Bin("//", V("x"), I(4))), P(V("x"))>>, TRUE) }

----------------------------------------------------------------------------------------
FunProbes ==
    { Probe("implicit-return", <<Fun("inc", <<Param("x", "Int", Absent)>>, "Int", <<>>, <<Expr(Bin("+", V("x"), I(1)))>>)>>, <<>>, <<P(Call("inc", <<I(4)>>)), P(Call("inc", <<Call("inc", <<I(1)>>)>>))>>, FALSE),
      Probe("explicit-return", <<Fun("sgn", <<Param("x", "Int", Absent)>>, "Int", <<>>, <<If(Bin("<", V("x"), I(0)), <<Ret(Neg(I(1)))>>, <<>>), If(Bin("=", V("x"), I(0)), <<Ret(I(0))>>, <<>>), Expr(I(1))>>)>>, <<>>,
            <<P(Call("sgn", <<Neg(I(5))>>)), P(Call("sgn", <<I(0)>>)), P(Call("sgn", <<I(9)>>))>>, FALSE),
      Probe("implicit-return-if", <<Fun("big", <<Param("x", "Int", Absent)>>, "Str", <<>>, <<If(Bin(">", V("x"), I(3)), <<Expr(StrL("big"))>>, <<Expr(StrL("small"))>>)>>)>>, <<>>,
            <<P(Call("big", <<I(1)>>)), P(Call("big", <<I(5)>>))>>, FALSE),
      Probe("implicit-return-nested-if", <<Fun("cls", <<Param("x", "Int", Absent)>>, "Int", <<>>,
                 <<If(Bin(">", V("x"), I(3)), <<If(Bin(">", V("x"), I(6)), <<Expr(I(3))>>, <<Expr(I(2))>>)>>, <<PrintS(StrL("low")), Expr(I(1))>>)>>)>>, <<>>,
            <<P(Call("cls", <<I(1)>>)), P(Call("cls", <<I(5)>>)), P(Call("cls", <<I(9)>>))>>, FALSE),
      Probe("implicit-return-match", <<Fun("fact", <<Param("x", "Int", Absent)>>, "Int", <<>>, <<Match(V("x"), <<Arm(I(0), <<Expr(I(1))>>), Arm(Var("n"), <<Expr(Bin("*", V("n"), Call("fact", <<Bin("-", V("n"), I(1))>>)))>>)>>)>>)>>, <<>>,
            <<P(Call("fact", <<I(0)>>)), P(Call("fact", <<I(4)>>))>>, FALSE),
      Probe("match-as-value", <<Fun("classify", <<Param("x", "Int", Absent)>>, "Int", <<>>,
                                    <<Match(V("x"), <<Arm(I(0), <<Expr(I(10))>>), Arm(I(1), <<Expr(I(20))>>), Arm(I(2), <<Expr(Bin("+", V("x"), I(30)))>>), Arm(I(3), <<Expr(I(40))>>), Arm(Wild, <<Expr(I(50))>>)>>)>>)>>, <<>>,
            <<P(Call("classify", <<I(0)>>)), P(Call("classify", <<I(2)>>)), P(Call("classify", <<I(3)>>)), P(Call("classify", <<I(9)>>)),
              Def("w", TRUE, "Int", IfE(Bin(">", Call("classify", <<I(1)>>), I(15)), I(1), I(2))), P(V("w"))>>, FALSE),
      Probe("locals-and-loop", <<Fun("sum_to", <<Param("n", "Int", Absent)>>, "Int", <<>>, <<DI("acc", 0), For("i", Range(I(1), V("n"), TRUE, Absent), <<Assign("acc", Bin("+", V("acc"), V("i")))>>), Expr(V("acc"))>>)>>, <<>>,
            <<P(Call("sum_to", <<I(4)>>)), P(Call("sum_to", <<I(0)>>))>>, FALSE),
      Probe("defaults", <<Fun("add", <<Param("x", "Int", Absent), Param("y", "Int", I(10)), Param("z", "Int", I(100))>>, "Int", <<>>, <<Expr(Bin("+", V("x"), Bin("+", V("y"), V("z"))))>>)>>, <<>>,
            <<P(Call("add", <<I(1)>>)), P(Call("add", <<I(1), I(2)>>)), P(Call("add", <<I(1), I(2), I(3)>>))>>, FALSE),
      Probe("no-return-type", <<Fun("say", <<Param("x", "Int", Absent)>>, "", <<>>, <<P(V("x")), Expr(Bin("+", V("x"), I(1)))>>)>>, <<>>, <<Expr(Call("say", <<I(3)>>)), P(StrL("after"))>>, FALSE),
      Probe("return-in-loop", <<Fun("first_over", <<Param("k", "Int", Absent)>>, "Int", <<>>, <<For("i", Range(I(0), I(10), FALSE, Absent), <<If(Bin(">", Bin("*", V("i"), V("i")), V("k")), <<Ret(V("i"))>>, <<>>)>>), Expr(Neg(I(1)))>>)>>, <<>>,
            <<P(Call("first_over", <<I(10)>>)), P(Call("first_over", <<I(200)>>))>>, FALSE),
      Probe("global-read", <<DI("factor", 3), Fun("scaled", <<Param("x", "Int", Absent)>>, "Int", <<>>, <<Expr(Bin("*", V("x"), V("factor")))>>)>>, <<>>, <<P(Call("scaled", <<I(5)>>))>>, FALSE),
      \* functions as values: callable parameter types (one, two and no parameters), anonymous functions as arguments, reading a global / a local
      Probe("higher-order", <<Fun("apply", <<Param("g", "Int -> Int", Absent), Param("x", "Int", Absent)>>, "Int", <<>>, <<Expr(Call("g", <<V("x")>>))>>)>>, <<>>,
            <<Def("r", TRUE, "Int", Call("apply", <<Lam(<<Param("y", "Int", Absent)>>, Bin("+", V("y"), I(1))), I(4)>>)), P(V("r")),
              Def("t", TRUE, "Int", Call("apply", <<Lam(<<Param("y", "Int", Absent)>>, Bin("*", V("y"), V("y"))), Call("apply", <<Lam(<<Param("w", "Int", Absent)>>, Bin("-", V("w"), I(1))), I(4)>>)>>)), P(V("t"))>>, FALSE),
      Probe("higher-order-two", <<Fun("comb", <<Param("g", "(Int, Int) -> Int", Absent)>>, "Int", <<>>, <<Expr(Call("g", <<I(2), I(3)>>))>>)>>, <<>>,
            <<Def("r", TRUE, "Int", Call("comb", <<Lam(<<Param("y", "Int", Absent), Param("z", "Int", Absent)>>, Bin("-", V("y"), V("z")))>>)), P(V("r"))>>, FALSE),
      Probe("higher-order-none", <<DI("k", 10), Fun("run", <<Param("g", "() -> Int", Absent)>>, "Int", <<>>, <<Expr(Call("g", <<>>))>>)>>, <<>>,
            <<Def("r", TRUE, "Int", Call("run", <<Lam(<<>>, I(3))>>)), P(V("r")), Def("u", TRUE, "Int", Call("run", <<Lam(<<>>, Bin("+", V("k"), I(1)))>>)), P(V("u"))>>, FALSE),
      Probe("higher-order-local", <<Fun("apply", <<Param("g", "Int -> Int", Absent), Param("x", "Int", Absent)>>, "Int", <<>>, <<Expr(Call("g", <<V("x")>>))>>),
                                    Fun("outer", <<Param("b", "Int", Absent)>>, "Int", <<>>, <<Def("c", TRUE, "Int", Bin("*", V("b"), I(2))), Expr(Call("apply", <<Lam(<<Param("y", "Int", Absent)>>, Bin("+", V("y"), V("c"))), V("b")>>))>>)>>, <<>>,
            <<Def("r", TRUE, "Int", Call("outer", <<I(5)>>)), P(V("r"))>>, FALSE),
      Probe("string-function", <<Fun("greet", <<Param("who", "Str", Absent)>>, "Str", <<>>, <<Expr(FStr(<<T("hi "), V("who")>>))>>)>>, <<>>, <<P(Call("greet", <<StrL("bob")>>))>>, FALSE) }

----------------------------------------------------------------------------------------
Counter == Class("Counter", <<CArg("start", TRUE, TRUE, "Int", Absent), CArg("step", TRUE, TRUE, "Int", I(1))>>, <<>>,
                 <<Def("count", TRUE, "Int", I(0)), Def("label", FALSE, "Str", StrL("c"))>>,
                 <<Method("bump", TRUE, <<Param("by", "Int", Absent)>>, "Int", <<>>, <<FAssign(V("self"), "count", Bin("+", Field(V("self"), "count"), Bin("*", V("by"), Field(V("self"), "step")))), Expr(Field(V("self"), "count"))>>),
                   Method("total", FALSE, <<>>, "Int", <<>>, <<Expr(Bin("+", Field(V("self"), "count"), Field(V("self"), "start")))>>),
                   Method("reset", TRUE, <<>>, "", <<>>, <<FAssign(V("self"), "count", I(0))>>)>>)
Animal == Class("Animal", <<CArg("name", TRUE, TRUE, "Str", Absent)>>, <<>>, <<Def("legs", TRUE, "Int", I(4))>>,
                <<Method("describe", FALSE, <<>>, "Str", <<>>, <<Expr(FStr(<<Field(V("self"), "name"), T(" has "), Field(V("self"), "legs")>>))>>),
                  Method("sound", FALSE, <<>>, "Str", <<>>, <<Expr(StrL("..."))>>)>>)
Dog == Class("Dog", <<CArg("name", FALSE, TRUE, "Str", Absent), CArg("tricks", TRUE, TRUE, "Int", Absent)>>, <<Parent("Animal", <<V("name")>>)>>, <<>>,
             <<Method("sound", FALSE, <<>>, "Str", <<>>, <<Expr(StrL("woof"))>>),
               Method("learn", TRUE, <<>>, "Int", <<>>, <<FAug("+", V("self"), "tricks", I(1)), Expr(Field(V("self"), "tricks"))>>)>>)
Point == Class("Point", <<>>, <<>>, <<Def("x", TRUE, "Int", Absent), Def("y", TRUE, "Int", Absent)>>,
               <<Method("__init__", TRUE, <<Param("x", "Int", Absent), Param("y", "Int", I(2))>>, "", <<>>, <<FAssign(V("self"), "x", V("x")), FAssign(V("self"), "y", Bin("*", V("y"), I(10)))>>),
                 Method("sum", FALSE, <<>>, "Int", <<>>, <<Expr(Bin("+", Field(V("self"), "x"), Field(V("self"), "y")))>>)>>)
\* two parents whose constructors are observable (they print, and both set the same field): the order of the class header counts
Engine == Class("Engine", <<>>, <<>>, <<Def("power", TRUE, "Int", I(0))>>,
                <<Method("__init__", TRUE, <<Param("kind", "Str", Absent)>>, "", <<>>, <<P(V("kind")), FAssign(V("self"), "power", I(100))>>)>>)
Turbo == Class("Turbo", <<>>, <<>>, <<Def("power", TRUE, "Int", I(0))>>,
               <<Method("__init__", TRUE, <<Param("kind", "Str", Absent)>>, "", <<>>, <<P(V("kind")), FAssign(V("self"), "power", I(50))>>)>>)
Car == Class("Car", <<>>, <<Parent("Engine", <<StrL("v8")>>), Parent("Turbo", <<StrL("twin")>>)>>, <<Def("seats", TRUE, "Int", I(0))>>,
             <<Method("__init__", TRUE, <<Param("seats", "Int", Absent)>>, "", <<>>, <<FAssign(V("self"), "seats", V("seats")), P(V("seats"))>>)>>)
Van == Class("Van", <<CArg("seats", TRUE, TRUE, "Int", Absent)>>, <<Parent("Turbo", <<StrL("single")>>), Parent("Engine", <<StrL("v6")>>)>>, <<>>, <<>>)
ClassProbes ==
    { Probe("two-parents-explicit-init", <<Engine, Turbo, Car>>, <<>>, <<Def("car", TRUE, "", New("Car", <<I(4)>>)), P(Field(V("car"), "power")), P(Field(V("car"), "seats"))>>, FALSE),
      Probe("two-parents-class-arguments", <<Engine, Turbo, Van>>, <<>>, <<Def("van", TRUE, "", New("Van", <<I(7)>>)), P(Field(V("van"), "power")), P(Field(V("van"), "seats"))>>, FALSE),
      Probe("counter", <<Counter>>, <<>>, <<Def("c", TRUE, "", New("Counter", <<I(10)>>)), P(MCall(V("c"), "bump", <<I(2)>>)), P(MCall(V("c"), "bump", <<I(3)>>)), P(MCall(V("c"), "total", <<>>)),
                                            P(Field(V("c"), "start")), P(Field(V("c"), "label")), Expr(MCall(V("c"), "reset", <<>>)), P(Field(V("c"), "count"))>>, FALSE),
      Probe("counter-step", <<Counter>>, <<>>, <<Def("c", TRUE, "", New("Counter", <<I(1), I(5)>>)), P(MCall(V("c"), "bump", <<I(2)>>)), FAssign(V("c"), "count", I(100)), P(MCall(V("c"), "total", <<>>))>>, FALSE),
      Probe("two-instances", <<Counter>>, <<>>, <<Def("c1", TRUE, "", New("Counter", <<I(0)>>)), Def("c2", TRUE, "", New("Counter", <<I(0)>>)), Expr(MCall(V("c1"), "bump", <<I(7)>>)),
                                                  P(Field(V("c1"), "count")), P(Field(V("c2"), "count"))>>, FALSE),
      Probe("inheritance", <<Animal, Dog>>, <<>>, <<Def("d", TRUE, "", New("Dog", <<StrL("rex"), I(2)>>)), P(MCall(V("d"), "describe", <<>>)), P(MCall(V("d"), "sound", <<>>)), P(MCall(V("d"), "learn", <<>>)),
                                                    P(Field(V("d"), "name")), Def("a", TRUE, "", New("Animal", <<StrL("cat")>>)), P(MCall(V("a"), "sound", <<>>)), FAssign(V("a"), "legs", I(3)), P(MCall(V("a"), "describe", <<>>))>>, FALSE),
      Probe("explicit-init", <<Point>>, <<>>, <<Def("p", TRUE, "", New("Point", <<I(1)>>)), P(MCall(V("p"), "sum", <<>>)), Def("q", TRUE, "", New("Point", <<I(1), I(3)>>)), P(MCall(V("q"), "sum", <<>>)),
                                                FAssign(V("q"), "x", I(50)), P(Field(V("q"), "x")), P(MCall(V("q"), "sum", <<>>))>>, FALSE),
      Probe("object-argument", <<Counter, Fun("drive", <<Param("c", "Counter", Absent), Param("n", "Int", Absent)>>, "Int", <<>>, <<For("i", Range(I(0), V("n"), FALSE, Absent), <<Expr(MCall(V("c"), "bump", <<I(1)>>))>>), Expr(Field(V("c"), "count"))>>)>>, <<>>,
            <<Def("c", TRUE, "", New("Counter", <<I(0), I(2)>>)), P(Call("drive", <<V("c"), I(3)>>)), P(Field(V("c"), "count"))>>, FALSE) }

----------------------------------------------------------------------------------------
Errs == << Class("AppErr", <<CArg("msg", TRUE, TRUE, "Str", Absent)>>, <<Parent("Exception", <<>>)>>, <<>>, <<>>),
           Class("LowErr", <<CArg("msg", FALSE, TRUE, "Str", Absent)>>, <<Parent("AppErr", <<V("msg")>>)>>, <<>>, <<>>),
           Class("OtherErr", <<>>, <<Parent("Exception", <<>>)>>, <<>>, <<>>),
           Fun("risky", <<Param("x", "Int", Absent)>>, "Int", <<"AppErr", "OtherErr">>,
               <<If(Bin("<", V("x"), I(0)), <<Raise("LowErr", <<StrL("low")>>)>>, <<>>), If(Bin("=", V("x"), I(0)), <<Raise("AppErr", <<StrL("zero")>>)>>, <<>>),
                 If(Bin(">", V("x"), I(100)), <<Raise("OtherErr", <<>>)>>, <<>>), Expr(Bin("*", V("x"), I(2)))>>) >>
SafeFun(arms) == Fun("safe", <<Param("x", "Int", Absent)>>, "Int", <<>>, <<Handle(Def("a", TRUE, "Int", Call("risky", <<V("x")>>)), arms), Expr(Bin("+", V("a"), I(1)))>>)
ArmsA == << HArm("LowErr", "err", <<P(StrL("low caught")), Expr(Neg(I(1)))>>), HArm("AppErr", "err", <<P(StrL("app caught")), Expr(Neg(I(2)))>>), HArm("OtherErr", "err", <<P(StrL("other caught")), Expr(Neg(I(3)))>>) >>
ArmsParentFirst == << HArm("AppErr", "err", <<P(StrL("app caught")), Expr(Neg(I(2)))>>), HArm("OtherErr", "err", <<Expr(Neg(I(3)))>>) >>
ArmsReturn == << HArm("AppErr", "err", <<P(StrL("bail")), Ret(I(0))>>), HArm("OtherErr", "_", <<Expr(I(5))>>) >>
Inputs == <<I(4), I(0), Neg(I(3)), I(500)>>
Calls(f) == [j \in 1..Len(Inputs) |-> P(Call(f, <<Inputs[j]>>))]
ErrorProbes ==
    { Probe("handle-value-arms", Errs \o <<SafeFun(ArmsA)>>, <<>>, Calls("safe"), FALSE),
      Probe("handle-parent-arm", Errs \o <<SafeFun(ArmsParentFirst)>>, <<>>, Calls("safe"), FALSE),
      Probe("handle-return-arm", Errs \o <<SafeFun(ArmsReturn)>>, <<>>, Calls("safe"), FALSE),
      Probe("handle-statement", Errs \o <<Fun("noisy", <<Param("x", "Int", Absent)>>, "Int", <<>>, <<Handle(Expr(Call("risky", <<V("x")>>)), <<HArm("AppErr", "err", <<P(StrL("app"))>>), HArm("OtherErr", "err", <<P(StrL("other"))>>)>>), Expr(I(1))>>)>>, <<>>, Calls("noisy"), FALSE),
      Probe("handle-as-value", Errs \o <<Fun("val", <<Param("x", "Int", Absent)>>, "Int", <<>>, <<Handle(Expr(Call("risky", <<V("x")>>)), <<HArm("AppErr", "err", <<Expr(Neg(I(7)))>>), HArm("OtherErr", "err", <<Expr(Neg(I(8)))>>)>>)>>)>>, <<>>, Calls("val"), FALSE),
      \* arms that do not bind the exception (`_`), in value / return position and as a plain statement
      Probe("handle-as-value-unbound-arm", Errs \o <<Fun("val", <<Param("x", "Int", Absent)>>, "Int", <<>>, <<Handle(Expr(Call("risky", <<V("x")>>)), <<HArm("AppErr", "_", <<Expr(Neg(I(7)))>>), HArm("OtherErr", "err", <<Expr(Neg(I(8)))>>)>>)>>)>>, <<>>, Calls("val"), FALSE),
      Probe("handle-in-branch-unbound-arm", Errs \o <<Fun("val", <<Param("x", "Int", Absent)>>, "Int", <<>>,
                <<If(Bin(">", V("x"), I(1000)), <<Expr(I(0))>>, <<Handle(Expr(Call("risky", <<V("x")>>)), <<HArm("AppErr", "_", <<Expr(Neg(I(7)))>>), HArm("OtherErr", "_", <<Expr(Neg(I(8)))>>)>>)>>)>>)>>, <<>>, Calls("val"), FALSE),
      Probe("handle-statement-unbound-arm", Errs \o <<Fun("noisy", <<Param("x", "Int", Absent)>>, "Int", <<>>, <<Handle(Expr(Call("risky", <<V("x")>>)), <<HArm("AppErr", "_", <<P(StrL("app"))>>), HArm("OtherErr", "_", <<P(StrL("other"))>>)>>), Expr(I(1))>>)>>, <<>>, Calls("noisy"), FALSE),
      Probe("propagate-declared", Errs \o <<Fun("pass_on", <<Param("x", "Int", Absent)>>, "Int", <<"AppErr", "OtherErr">>, <<Expr(Bin("+", Call("risky", <<V("x")>>), I(1)))>>),
                                            Fun("outer", <<Param("x", "Int", Absent)>>, "Int", <<>>, <<Handle(Def("r", TRUE, "Int", Call("pass_on", <<V("x")>>)), <<HArm("Exception", "err", <<Expr(Neg(I(9)))>>)>>), Expr(V("r"))>>)>>, <<>>, Calls("outer"), FALSE) }
  \cup { Probe("uncaught", Errs, <<>>, <<P(StrL("before")), P(Call("risky", <<x>>)), P(StrL("after"))>>, FALSE) : x \in {I(3), I(0), Neg(I(1)), I(101)} }
  \cup { Probe("partly-handled", Errs, <<>>, <<Handle(Def("a", TRUE, "Int", Call("risky", <<x>>)), <<HArm("OtherErr", "err", <<Expr(I(0))>>)>>), P(V("a"))>>, FALSE) : x \in {I(3), I(0), I(101)} }
  \* the README's own pattern: a `def` class argument that is also handed to the parent constructor is still a field
  \cup { Probe("error-field-passed-to-parent", <<Class("MsgErr", <<CArg("message", TRUE, TRUE, "Str", Absent)>>, <<Parent("Exception", <<V("message")>>)>>, <<>>, <<>>),
                                                 Fun("fails", <<>>, "Int", <<"MsgErr">>, <<Raise("MsgErr", <<StrL("boom")>>)>>)>>, <<>>,
               <<Handle(Def("a", TRUE, "Int", Call("fails", <<>>)), <<HArm("MsgErr", "err", <<P(Field(V("err"), "message")), Expr(I(0))>>)>>), P(V("a"))>>, FALSE) }
  \cup { Probe("error-field", Errs, <<>>, <<Handle(Def("a", TRUE, "Int", Call("risky", <<I(0)>>)), <<HArm("AppErr", "err", <<P(Field(V("err"), "msg")), Expr(I(0))>>), HArm("OtherErr", "err", <<Expr(I(1))>>)>>), P(V("a"))>>, FALSE) }

Probes == CASE Part = "ops" -> OpProbes [] Part = "control" -> ControlProbes [] Part = "functions" -> FunProbes
            [] Part = "classes" -> ClassProbes [] Part = "errors" -> ErrorProbes

\* an unhandled raise escapes; at top level there is no function that would have to declare it, inside a context function
\* it would: keep probes that can raise out of function / method / handle-arm contexts
MayRaise(p) == p.name \in {"uncaught", "partly-handled"}
Cases == { [prop |-> "C01", kind |-> p.name, ctx |-> ctx, hoist |-> h, prog |-> Plug(ctx, h, p)]
           : p \in Probes, ctx \in Ctxs(Wrappers, Depth), h \in BOOLEAN }
VARIABLE c
Init == c \in { x \in Cases : /\ x.hoist => (\E p \in Probes : p.name = x.kind /\ CanHoist(x.ctx, p))
                              /\ (x.kind \in {"uncaught", "partly-handled"} => \A j \in 1..Len(x.ctx) : x.ctx[j] \notin {"fun", "method", "harm"}) }
Next == UNCHANGED c
Emit == PrintT("@@" \o ToJson(c))
\* R1: the program is inside the reference semantics
ModelRuns == LET m == Run(c.prog, 60) IN m.cat \in {"ok", "exc"}
=====================================================================================
