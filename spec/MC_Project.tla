----------------------------------- MODULE MC_Project -----------------------------------
(* C13 roles R1 + R2: all projects of 1..N files over the path pool, every file defining its own class and   *)
(* function and optionally using the class / function of the NEXT file (cyclically), with at most one fault; *)
(* R1: Expected(p) is invariant under permutation of the file list and under adding an unrelated file;       *)
(* R2: every project is emitted with all permutations of its presentation order.                             *)
EXTENDS Project, Json, SequencesExt

CONSTANT N
PathSets == {S \in SUBSET (1..Len(Paths)) : Cardinality(S) >= 1 /\ Cardinality(S) <= N}
\* projects over a path set: uses per file, and (at most) one faulty file
Projects ==
    UNION { LET ps == SetToSeq(S) n == Len(ps) IN
            { [j \in 1..n |-> File(ps[j], u[j], IF f[1] = j THEN f[2] ELSE "none")]
              : u \in [1..n -> (IF n = 1 THEN {"none"} ELSE {"none", "class", "fun", "inherit"})],
                f \in ({<<0, "none">>} \cup ((1..n) \X {"lex", "syntax", "type"})) }
            : S \in PathSets }

Perms(n) == {q \in [1..n -> 1..n] : \A a, b \in 1..n : a # b => q[a] # q[b]}
Permute(p, q) == [j \in 1..Len(p) |-> p[q[j]]]

VARIABLE p
Init == p \in Projects
Next == UNCHANGED p
\* R1
OrderIndependent == \A q \in Perms(Len(p)) : Expected(Permute(p, q)) = Expected(p)
NonInterfering == LET extra == File(CHOOSE x \in 1..Len(Paths) : \A j \in 1..Len(p) : p[j].path # x, "none", "none") IN
                  Len(p) < Len(Paths) =>
                     LET e == Expected(Append(p, extra)) IN e.ok = Expected(p).ok /\ e.blamed = Expected(p).blamed /\ e.tree = Expected(p).tree \cup (IF e.ok THEN {extra.path} ELSE {})
Emit == PrintT("@@" \o ToJson([files |-> p, expected |-> Expected(p), perms |-> SetToSeq(Perms(Len(p)))]))
=====================================================================================
