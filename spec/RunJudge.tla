----------------------------------- MODULE RunJudge -----------------------------------
(* C01 / C04 / C08(2nd half), role R3: judge of recorded executions.  One record per program:             *)
(*   prog : abstract syntax;  off / on : what happened with annotate off / on:                             *)
(*          [acc |-> accepted?, compiles |-> CPython compiled it?, out |-> printed lines, exc |-> class of   *)
(*           the uncaught exception or "" ]                                                                *)
(* C01: for an accepted program inside the model, the emitted Python printed exactly Run(prog).out and     *)
(*      ended as Run(prog) says (normally, or with an uncaught exception of that class) - in both modes.   *)
(* C04: an accepted program never ends in TypeError / AttributeError / NameError / UnboundLocalError.      *)
(*      (decided on CPython's verdict alone; the model's "wrong" is only used as drift).                   *)
EXTENDS MambaDynamic, Json, IOUtils

CONSTANT Fuel
Rec == ndJsonDeserialize(IOEnv.TRACE)
GoesWrong == {"TypeError", "AttributeError", "NameError", "UnboundLocalError"}

\* the reference result: the evaluator on the abstract syntax, or - for the forms given as text (spec/MC_Forms.tla) - the lines the
\* specification computed for them (out = <<"<any>">> : behaviour not compared)
M(o) == IF "expect" \in DOMAIN o
        THEN [out |-> o.expect, status |-> IF o.expect = <<"<any>">> THEN "unsupported:not-compared" ELSE "ok", cat |-> IF o.expect = <<"<any>">> THEN "skip" ELSE "ok"]
        ELSE Run(o.prog, Fuel)
Same(m, o) == /\ o.out = m.out
              /\ (IF m.cat = "ok" THEN o.exc = "" ELSE o.exc = m.status)

C01(o) == LET m == M(o) IN
          IF ~o.off.acc /\ ~o.on.acc THEN "skip:rejected"
          ELSE IF o.off.acc # o.on.acc THEN "skip:verdict-differs"            \* C11's business
          ELSE IF m.cat = "skip" THEN "skip:" \o m.status
          ELSE IF m.cat = "wrong" THEN "skip:model-goes-wrong"                \* C04's business
          ELSE IF ~o.off.compiles \/ ~o.on.compiles THEN "skip:does-not-compile"   \* C02's business
          ELSE IF ~Same(m, o.off) THEN "violation:behaviour-differs-annotate-off"
          ELSE IF ~Same(m, o.on) THEN "violation:behaviour-differs-annotate-on"
          ELSE "ok"

C04(o) == IF ~o.off.acc /\ ~o.on.acc THEN "skip:rejected"
          ELSE IF (o.off.acc /\ o.off.exc \in GoesWrong) \/ (o.on.acc /\ o.on.exc \in GoesWrong) THEN "violation:accepted-program-goes-wrong"
          ELSE "ok"

VARIABLE r
Init == r \in 1..Len(Rec)
Next == UNCHANGED r
Report == LET o == Rec[r] m == M(o) IN
          PrintT("@@" \o ToJson([id |-> o.id, c01 |-> C01(o), c04 |-> C04(o), model |-> [out |-> m.out, status |-> m.status, cat |-> m.cat]]))
=====================================================================================
