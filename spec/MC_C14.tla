------------------------------------- MODULE MC_C14 -------------------------------------
(* C14, role R2: base programs for the trivia edits of spec/Trivia.tla in which EVERY KIND OF SIMPLE STATEMENT stands at every kind of   *)
(* block position: followed by another statement of the same block, last of its block before a dedent, last of its block at the end   *)
(* of the file, and as the only statement of a nested block.  (The edits then put blank lines, comment lines, trailing spaces and a   *)
(* missing final newline around each of them.)  A program is a sequence of lines [ind, text]; the driver joins them.                    *)
EXTENDS Naturals, Sequences, TLC, Json
L(ind, text) == [ind |-> ind, text |-> text]
\* statement kinds: text + the header its function needs (return type / raises)
Stmts == { [n |-> "return",        t |-> "return",                  hdr |-> "def f(x: Int) =>"],
           [n |-> "return-value",  t |-> "return x + 1",            hdr |-> "def f(x: Int) -> Int =>"],
           [n |-> "import",        t |-> "import os",               hdr |-> "def f(x: Int) =>"],
           [n |-> "import-as",     t |-> "import os as o",          hdr |-> "def f(x: Int) =>"],
           [n |-> "from-import",   t |-> "from os import path",     hdr |-> "def f(x: Int) =>"],
           [n |-> "from-import-as", t |-> "from os import path as p", hdr |-> "def f(x: Int) =>"],
           [n |-> "pass",          t |-> "pass",                    hdr |-> "def f(x: Int) =>"],
           [n |-> "def",           t |-> "def y := x + 1",          hdr |-> "def f(x: Int) =>"],
           [n |-> "def-typed",     t |-> "def y: Int := x",         hdr |-> "def f(x: Int) =>"],
           [n |-> "def-no-value",  t |-> "def y: Int",              hdr |-> "def f(x: Int) =>"],
           [n |-> "call",          t |-> "print(x)",                hdr |-> "def f(x: Int) =>"],
           [n |-> "raise",         t |-> "raise E()",               hdr |-> "def f(x: Int) raise [E] =>"],
           [n |-> "if-inline",     t |-> "if x > 1 then print(x)",  hdr |-> "def f(x: Int) =>"],
           [n |-> "if-return",     t |-> "if x > 1 then return",    hdr |-> "def f(x: Int) =>"],
           [n |-> "for-inline",    t |-> "for i in 0 .. 1 do print(i)", hdr |-> "def f(x: Int) =>"],
           [n |-> "while-inline",  t |-> "while False do print(x)", hdr |-> "def f(x: Int) =>"],
           [n |-> "string",        t |-> "\"text\"",                hdr |-> "def f(x: Int) =>"],
           [n |-> "expression",    t |-> "x + 1",                   hdr |-> "def f(x: Int) =>"] }
Hd == <<L(0, "class E: Exception")>>
Programs(s) ==
    { <<"mid",        Hd \o <<L(0, s.hdr), L(1, "print(0)"), L(1, s.t), L(1, "print(1)"), L(0, "print(2)")>>>>,
      <<"last-dedent", Hd \o <<L(0, s.hdr), L(1, "print(0)"), L(1, s.t), L(0, "print(2)")>>>>,
      <<"last-eof",    Hd \o <<L(0, "print(2)"), L(0, s.hdr), L(1, "print(0)"), L(1, s.t)>>>>,
      <<"only-eof",    Hd \o <<L(0, s.hdr), L(1, s.t)>>>>,
      <<"nested-mid",  Hd \o <<L(0, s.hdr), L(1, "if x > 0 then"), L(2, s.t), L(2, "print(1)"), L(1, "print(3)")>>>>,
      <<"nested-last", Hd \o <<L(0, s.hdr), L(1, "if x > 0 then"), L(2, "print(0)"), L(2, s.t), L(1, "print(3)")>>>>,
      <<"nested-eof",  Hd \o <<L(0, s.hdr), L(1, "if x > 0 then"), L(2, "print(0)"), L(2, s.t)>>>>,
      <<"else-eof",    Hd \o <<L(0, s.hdr), L(1, "if x > 0 then"), L(2, "print(0)"), L(1, "else"), L(2, s.t)>>>>,
      <<"top-mid",     Hd \o (IF s.n \in {"return", "return-value", "raise", "if-return"} THEN <<>> ELSE <<L(0, "def x := 1"), L(0, s.t), L(0, "print(2)")>>)>>,
      <<"top-eof",     Hd \o (IF s.n \in {"return", "return-value", "raise", "if-return"} THEN <<>> ELSE <<L(0, "def x := 1"), L(0, s.t)>>)>> }
Cases == UNION { { [stmt |-> s.n, position |-> p[1], lines |-> p[2]] : p \in Programs(s) } : s \in Stmts }
VARIABLE c
Init == c \in Cases
Next == UNCHANGED c
Emit == PrintT("@@" \o ToJson(c))
=====================================================================================
