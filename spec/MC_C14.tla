------------------------------------- MODULE MC_C14 -------------------------------------
(* C14, role R2: base programs for the trivia edits of spec/Trivia.tla in which EVERY KIND OF SIMPLE STATEMENT stands at every kind of   *)
(* block position: followed by another statement of the same block, last of its block before a dedent, last of its block at the end   *)
(* of the file, and as the only statement of a nested block.  (The edits then put blank lines, comment lines, trailing spaces and a   *)
(* missing final newline around each of them.)  A program is a sequence of lines [ind, text]; the driver joins them.                    *)
EXTENDS Naturals, Sequences, TLC, Json
L(ind, text) == [ind |-> ind, text |-> text]
\* statement kinds: text + the header its function needs (return type / raises)
Stmts == { [n |-> "return",        t |-> "return",                  hdr |-> "def f(x: Int) =>"],
           [n |-> "return-value",  t |-> "return x + 1",            hdr |-> "def f(x: Int) -> Int =>"],
           [n |-> "import",        t |-> "import os",               hdr |-> "def f(x: Int) =>"],
           [n |-> "import-as",     t |-> "import os as o",          hdr |-> "def f(x: Int) =>"],
           [n |-> "from-import",   t |-> "from os import path",     hdr |-> "def f(x: Int) =>"],
           [n |-> "from-import-as", t |-> "from os import path as p", hdr |-> "def f(x: Int) =>"],
           [n |-> "pass",          t |-> "pass",                    hdr |-> "def f(x: Int) =>"],
           [n |-> "def",           t |-> "def y := x + 1",          hdr |-> "def f(x: Int) =>"],
           [n |-> "def-typed",     t |-> "def y: Int := x",         hdr |-> "def f(x: Int) =>"],
           [n |-> "def-no-value",  t |-> "def y: Int",              hdr |-> "def f(x: Int) =>"],
           [n |-> "call",          t |-> "print(x)",                hdr |-> "def f(x: Int) =>"],
           [n |-> "raise",         t |-> "raise E()",               hdr |-> "def f(x: Int) raise [E] =>"],
           [n |-> "if-inline",     t |-> "if x > 1 then print(x)",  hdr |-> "def f(x: Int) =>"],
           [n |-> "if-return",     t |-> "if x > 1 then return",    hdr |-> "def f(x: Int) =>"],
           [n |-> "for-inline",    t |-> "for i in 0 .. 1 do print(i)", hdr |-> "def f(x: Int) =>"],
           [n |-> "while-inline",  t |-> "while False do print(x)", hdr |-> "def f(x: Int) =>"],
           [n |-> "string",        t |-> "\"text\"",                hdr |-> "def f(x: Int) =>"],
           [n |-> "expression",    t |-> "x + 1",                   hdr |-> "def f(x: Int) =>"] }
\* statements that span lines (ls: relative indentation, text): every construct with arms or blocks, so that the LAST line of the
\* construct is an arm / a nested block and the tokens behind it are those that close more than one block at once
Blocks == { [n |-> "match",         ls |-> <<<<0, "match x">>, <<1, "1 => print(1)">>, <<1, "_ => print(2)">>>>, hdr |-> "def f(x: Int) =>"],
            [n |-> "match-block-arm", ls |-> <<<<0, "match x">>, <<1, "1 => print(1)">>, <<1, "_ =>">>, <<2, "print(2)">>>>, hdr |-> "def f(x: Int) =>"],
            [n |-> "def-match",     ls |-> <<<<0, "def y: Int := match x">>, <<1, "1 => 1">>, <<1, "_ => 2">>>>, hdr |-> "def f(x: Int) =>"],
            [n |-> "handle",        ls |-> <<<<0, "def y: Int := g(x) handle">>, <<1, "err: E => 0">>>>, hdr |-> "def f(x: Int) =>"],
            [n |-> "handle-block-arm", ls |-> <<<<0, "def y: Int := g(x) handle">>, <<1, "err: E =>">>, <<2, "print(1)">>, <<2, "0">>>>, hdr |-> "def f(x: Int) =>"],
            [n |-> "if-block",      ls |-> <<<<0, "if x > 1 then">>, <<1, "print(x)">>>>, hdr |-> "def f(x: Int) =>"],
            [n |-> "if-else-block", ls |-> <<<<0, "if x > 1 then">>, <<1, "print(x)">>, <<0, "else">>, <<1, "print(0)">>>>, hdr |-> "def f(x: Int) =>"],
            [n |-> "for-block",     ls |-> <<<<0, "for i in 0 .. 2 do">>, <<1, "print(i)">>>>, hdr |-> "def f(x: Int) =>"],
            [n |-> "while-block",   ls |-> <<<<0, "while False do">>, <<1, "print(x)">>>>, hdr |-> "def f(x: Int) =>"],
            [n |-> "nested-def",    ls |-> <<<<0, "def h(z: Int) -> Int =>">>, <<1, "z + 1">>>>, hdr |-> "def f(x: Int) =>"] }
Body(s, ind) == IF "ls" \in DOMAIN s THEN [j \in 1..Len(s.ls) |-> L(ind + s.ls[j][1], s.ls[j][2])] ELSE <<L(ind, s.t)>>
Hd == <<L(0, "class E: Exception"), L(0, "def g(v: Int) -> Int raise [E] => if v > 5 then raise E() else v")>>
NotAtTop == {"return", "return-value", "raise", "if-return"}
Programs(s) ==
    { <<"mid",        Hd \o <<L(0, s.hdr), L(1, "print(0)")>> \o Body(s, 1) \o <<L(1, "print(1)"), L(0, "print(2)")>>>>,
      <<"last-dedent", Hd \o <<L(0, s.hdr), L(1, "print(0)")>> \o Body(s, 1) \o <<L(0, "print(2)")>>>>,
      <<"last-eof",    Hd \o <<L(0, "print(2)"), L(0, s.hdr), L(1, "print(0)")>> \o Body(s, 1)>>,
      <<"only-eof",    Hd \o <<L(0, s.hdr)>> \o Body(s, 1)>>,
      <<"nested-mid",  Hd \o <<L(0, s.hdr), L(1, "if x > 0 then")>> \o Body(s, 2) \o <<L(2, "print(1)"), L(1, "print(3)")>>>>,
      <<"nested-last", Hd \o <<L(0, s.hdr), L(1, "if x > 0 then"), L(2, "print(0)")>> \o Body(s, 2) \o <<L(1, "print(3)")>>>>,
      <<"nested-last-2", Hd \o <<L(0, s.hdr), L(1, "if x > 0 then"), L(2, "print(0)")>> \o Body(s, 2) \o <<L(0, "print(3)")>>>>,
      <<"nested-eof",  Hd \o <<L(0, s.hdr), L(1, "if x > 0 then"), L(2, "print(0)")>> \o Body(s, 2)>>,
      <<"else-eof",    Hd \o <<L(0, s.hdr), L(1, "if x > 0 then"), L(2, "print(0)"), L(1, "else")>> \o Body(s, 2)>>,
      <<"before-def",  Hd \o <<L(0, s.hdr), L(1, "print(0)")>> \o Body(s, 1) \o <<L(0, "def k(x: Int) => print(x)")>>>>,
      <<"top-mid",     Hd \o (IF s.n \in NotAtTop THEN <<>> ELSE <<L(0, "def x := 1")>> \o Body(s, 0) \o <<L(0, "print(2)")>>)>>,
      <<"top-eof",     Hd \o (IF s.n \in NotAtTop THEN <<>> ELSE <<L(0, "def x := 1")>> \o Body(s, 0))>> }
\* members of a class body at every position of the body (a field, a field that forwards, a field without value, a method, a method
\* with a block body)
Members == { [n |-> "field",          ls |-> <<<<0, "def b: B := B()">>>>],
             [n |-> "field-forward",  ls |-> <<<<0, "def b: B := B() forward g">>>>],
             [n |-> "field-forward-2", ls |-> <<<<0, "def b: B := B() forward g, h">>>>],
             [n |-> "field-int",      ls |-> <<<<0, "def n: Int := 1">>>>],
             [n |-> "method",         ls |-> <<<<0, "def m(self) -> Int => 1">>>>],
             [n |-> "method-block",   ls |-> <<<<0, "def m(self) -> Int =>">>, <<1, "print(1)">>, <<1, "2">>>>] }
ClassHd == <<L(0, "class B"), L(1, "def g(self) -> Int => 1"), L(1, "def h(self) -> Int => 2")>>
ClassPrograms(s) ==
    { <<"class-mid",         ClassHd \o <<L(0, "class A"), L(1, "def q: Int := 0")>> \o Body(s, 1) \o <<L(1, "def r: Int := 3"), L(0, "print(2)")>>>>,
      <<"class-first",       ClassHd \o <<L(0, "class A")>> \o Body(s, 1) \o <<L(1, "def r: Int := 3"), L(0, "print(2)")>>>>,
      <<"class-last-dedent", ClassHd \o <<L(0, "class A"), L(1, "def q: Int := 0")>> \o Body(s, 1) \o <<L(0, "print(2)")>>>>,
      <<"class-last-class",  ClassHd \o <<L(0, "class A"), L(1, "def q: Int := 0")>> \o Body(s, 1) \o <<L(0, "class C"), L(1, "def w: Int := 0")>>>>,
      <<"class-only-eof",    ClassHd \o <<L(0, "class A")>> \o Body(s, 1)>>,
      <<"class-last-eof",    ClassHd \o <<L(0, "class A"), L(1, "def q: Int := 0")>> \o Body(s, 1)>> }
Cases == UNION { { [stmt |-> s.n, position |-> p[1], lines |-> p[2]] : p \in Programs(s) } : s \in Stmts \cup Blocks }
         \cup UNION { { [stmt |-> s.n, position |-> p[1], lines |-> p[2]] : p \in ClassPrograms(s) } : s \in Members }
VARIABLE c
Init == c \in Cases
Next == UNCHANGED c
Emit == PrintT("@@" \o ToJson(c))
=====================================================================================
