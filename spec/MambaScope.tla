----------------------------------- MODULE MambaScope -----------------------------------
(* The definite-assignment rule of the language (C09) as an analysis of abstract syntax.                 *)
(*                                                                                                        *)
(* DA walks a program the way the property sentence reads: a name may be read only if a definition of it  *)
(* is visible in the same or an enclosing block and precedes the read on every path.  Blocks of branches, *)
(* loops, match arms, handle arms and comprehensions do not export their definitions; a function or        *)
(* method body sees the variables defined before the `def`, its parameters, and ALL top-level functions   *)
(* and classes (they are called later, when everything at top level exists); top-level code sees only     *)
(* what precedes it.  Non-nullable fields without initialiser must be assigned on every path of the        *)
(* constructor and not read before.                                                                        *)
(* `lenient` decides the one case the documentation leaves open: does a name defined in BOTH branches of   *)
(* an if/else (or in all arms of a match with a default arm) count as defined afterwards?                  *)
(* Verdicts(p) = {DA strict, DA lenient} is therefore a set of allowed verdicts.                           *)
EXTENDS MambaSyntax

Builtins == {"print", "Exception", "True", "False", "None", "self_is_not_builtin"} \ {"self_is_not_builtin"}

Fail == [ok |-> FALSE, D |-> {}]
Ok(D) == [ok |-> TRUE, D |-> D]
SeqAll(s, P(_)) == \A j \in 1..Len(s) : P(s[j])

RECURSIVE DAE(_, _), DAS(_, _, _, _), DAB(_, _, _, _), ArmsD(_, _, _, _, _)

\* every name read by expression e is in D
DAE(e, D) ==
    CASE e.k \in {"int", "float", "str", "bool", "none", "absent"} -> TRUE
      [] e.k = "raw"    -> TRUE                       \* opaque text (comprehension): its own variable is local to it
      [] e.k = "var"    -> e.n \in D
      [] e.k = "bin"    -> DAE(e.l, D) /\ DAE(e.r, D)
      [] e.k \in {"not", "neg"} -> DAE(e.e, D)
      [] e.k = "ife"    -> DAE(e.c, D) /\ DAE(e.t, D) /\ DAE(e.e, D)
      [] e.k = "call"   -> e.f \in D /\ SeqAll(e.args, LAMBDA a : DAE(a, D))
      [] e.k = "mcall"  -> DAE(e.o, D) /\ SeqAll(e.args, LAMBDA a : DAE(a, D))
      [] e.k = "field"  -> DAE(e.o, D)
      [] e.k = "new"    -> e.c \in D /\ SeqAll(e.args, LAMBDA a : DAE(a, D))
      [] e.k \in {"list", "tuple", "set"} -> SeqAll(e.es, LAMBDA a : DAE(a, D))
      [] e.k = "index"  -> DAE(e.o, D) /\ DAE(e.i, D)
      [] e.k = "qdef"   -> DAE(e.l, D) /\ DAE(e.r, D)
      [] e.k = "fstr"   -> SeqAll(e.parts, LAMBDA p : DAE(p, D))
      [] e.k = "range"  -> DAE(e.a, D) /\ DAE(e.b, D) /\ DAE(e.step, D)
      [] e.k \in {"listb", "setb"} -> DAE(e.it, D) /\ DAE(e.e, D \cup {e.n}) /\ SeqAll(e.cs, LAMBDA c : DAE(c, D \cup {e.n}))
      [] e.k = "lam"    -> DAE(e.e, D \cup {e.ps[j].n : j \in 1..Len(e.ps)})

\* names a parameter list binds (a name may be written "fin x")
ParamNames(ps) == {ps[j].n : j \in 1..Len(ps)} \cup {"x" : j \in {j \in 1..Len(ps) : ps[j].n = "fin x"}}

\* a block: statements in sequence from D; result ok + the set defined at its end
DAB(stmts, D, G, lenient) ==
    IF Len(stmts) = 0 THEN Ok(D)
    ELSE LET r == DAS(stmts[1], D, G, lenient) IN
         IF ~r.ok THEN Fail ELSE DAB(Tail(stmts), r.D, G, lenient)

\* arms of a match / handle: every arm from D plus its binder; result: all ok, and the intersection of what they define
ArmsD(arms, j, D, G, lenient) ==
    IF j > Len(arms) THEN [ok |-> TRUE, D |-> {"<all>"}]
    ELSE LET a == arms[j]
             binder == IF "p" \in DOMAIN a THEN (IF a.p.k = "var" THEN {a.p.n} ELSE {})
                       ELSE (IF a.n = "_" THEN {} ELSE {a.n})
             r == DAB(a.b, D \cup binder, G, lenient)
             rest == ArmsD(arms, j + 1, D, G, lenient) IN
         IF ~r.ok \/ ~rest.ok THEN Fail
         ELSE [ok |-> TRUE, D |-> IF rest.D = {"<all>"} THEN r.D \ binder ELSE (r.D \ binder) \cap rest.D]

DAS(s, D, G, lenient) ==
    CASE s.k = "def"     -> IF DAE(s.e, D) THEN Ok(D \cup {s.n}) ELSE Fail
      [] s.k = "deftup"  -> IF DAE(s.e, D) THEN Ok(D \cup {s.ns[j] : j \in 1..Len(s.ns)}) ELSE Fail
      [] s.k \in {"assign", "aug"} -> IF DAE(s.e, D) /\ s.n \in D THEN Ok(D) ELSE Fail
      [] s.k \in {"fassign", "faug"} -> IF DAE(s.o, D) /\ DAE(s.e, D) THEN Ok(D) ELSE Fail
      [] s.k \in {"print", "expr", "ret"} -> IF DAE(s.e, D) THEN Ok(D) ELSE Fail
      [] s.k \in {"ret0", "pass", "raw"} -> Ok(D)
      [] s.k = "raise"   -> IF s.c \in D /\ SeqAll(s.args, LAMBDA a : DAE(a, D)) THEN Ok(D) ELSE Fail
      [] s.k = "if"      -> IF ~DAE(s.c, D) THEN Fail
                            ELSE LET t == DAB(s.t, D, G, lenient) e == DAB(s.e, D, G, lenient) IN
                                 IF ~t.ok \/ ~e.ok THEN Fail
                                 ELSE IF lenient /\ Len(s.e) > 0 THEN Ok(D \cup (t.D \cap e.D)) ELSE Ok(D)
      [] s.k = "while"   -> IF DAE(s.c, D) /\ DAB(s.b, D, G, lenient).ok THEN Ok(D) ELSE Fail
      [] s.k = "for"     -> IF DAE(s.it, D) /\ DAB(s.b, D \cup {s.n}, G, lenient).ok THEN Ok(D) ELSE Fail
      [] s.k = "match"   -> IF ~DAE(s.e, D) THEN Fail
                            ELSE LET r == ArmsD(s.arms, 1, D, G, lenient)
                                     hasDefault == \E j \in 1..Len(s.arms) : s.arms[j].p.k \in {"wild", "var"} IN
                                 IF ~r.ok THEN Fail ELSE IF lenient /\ hasDefault THEN Ok(D \cup (r.D \ {"<all>"})) ELSE Ok(D)
      [] s.k = "handle"  -> LET g == DAS(s.s, D, G, lenient) IN
                            IF ~g.ok THEN Fail
                            ELSE IF ArmsD(s.arms, 1, D, G, lenient).ok THEN Ok(g.D) ELSE Fail
      [] s.k = "with"    -> IF s.r \in D /\ DAB(s.b, IF s.a = "" THEN D ELSE D \cup {s.a}, G, lenient).ok THEN Ok(D) ELSE Fail
      [] s.k = "fun"     -> LET inner == D \cup G \cup ParamNames(s.ps) \cup (IF "self" \in DOMAIN s THEN {"self"} ELSE {}) IN
                            IF SeqAll(s.ps, LAMBDA p : DAE(p.d, D)) /\ DAB(s.b, inner, G, lenient).ok THEN Ok(D \cup {s.n}) ELSE Fail
      [] s.k = "class"   -> LET argNames == {s.args[j].n : j \in 1..Len(s.args)}
                                inner == D \cup G \cup {s.n} IN
                            IF /\ SeqAll(s.parents, LAMBDA p : p.c \in inner \cup Builtins /\ SeqAll(p.args, LAMBDA a : DAE(a, D \cup argNames)))
                               /\ SeqAll(s.fields, LAMBDA f : DAE(f.e, inner))
                               /\ SeqAll(s.methods, LAMBDA m : DAS(m, inner, G, lenient).ok)
                            THEN Ok(D \cup {s.n}) ELSE Fail

\* names of all top-level functions and classes
Globals(p) == {p.stmts[j].n : j \in {j \in 1..Len(p.stmts) : p.stmts[j].k \in {"fun", "class"}}}

----------------------------------------------------------------------------------------
\* constructor rule: fields without initialiser and non-nullable type
RECURSIVE ReadsField(_, _), FB(_, _, _), FS(_, _, _), FArms(_, _, _, _)
ReadsField(e, F) ==   \* does e read self.f for some f in F
    CASE e.k = "field"  -> (e.o.k = "var" /\ e.o.n = "self" /\ e.n \in F) \/ ReadsField(e.o, F)
      [] e.k = "bin"    -> ReadsField(e.l, F) \/ ReadsField(e.r, F)
      [] e.k \in {"not", "neg"} -> ReadsField(e.e, F)
      [] e.k \in {"call", "new"} -> \E j \in 1..Len(e.args) : ReadsField(e.args[j], F)
      [] e.k = "mcall"  -> ReadsField(e.o, F) \/ \E j \in 1..Len(e.args) : ReadsField(e.args[j], F)
      [] OTHER -> FALSE
\* FS: statement s with the set U of still unassigned fields -> [ok, U']
FB(stmts, U, j) == IF j > Len(stmts) THEN [ok |-> TRUE, U |-> U]
                   ELSE LET r == FS(stmts[j], U, 0) IN IF ~r.ok THEN [ok |-> FALSE, U |-> U] ELSE FB(stmts, r.U, j + 1)
FArms(arms, U, j, acc) ==
    IF j > Len(arms) THEN [ok |-> TRUE, U |-> acc]
    ELSE LET r == FB(arms[j].b, U, 1) IN IF ~r.ok THEN [ok |-> FALSE, U |-> U] ELSE FArms(arms, U, j + 1, acc \cup r.U)
FS(s, U, dummy) ==
    CASE s.k = "fassign" -> IF ReadsField(s.e, U) THEN [ok |-> FALSE, U |-> U]
                            ELSE [ok |-> TRUE, U |-> IF s.o.k = "var" /\ s.o.n = "self" THEN U \ {s.f} ELSE U]
      \* a compound assignment READS its target first
      [] s.k = "faug"    -> [ok |-> ~ReadsField(s.e, U) /\ ~(s.o.k = "var" /\ s.o.n = "self" /\ s.f \in U), U |-> U]
      [] s.k \in {"print", "expr", "ret", "def", "assign", "aug"} -> [ok |-> ~ReadsField(s.e, U), U |-> U]
      [] s.k = "if"      -> IF ReadsField(s.c, U) THEN [ok |-> FALSE, U |-> U]
                            ELSE LET t == FB(s.t, U, 1) e == FB(s.e, U, 1) IN
                                 [ok |-> t.ok /\ e.ok, U |-> IF Len(s.e) = 0 THEN U ELSE t.U \cup e.U]
      [] s.k \in {"while", "for"} -> [ok |-> FB(s.b, U, 1).ok, U |-> U]
      [] s.k = "match"   -> LET r == FArms(s.arms, U, 1, {})
                                hasDefault == \E j \in 1..Len(s.arms) : s.arms[j].p.k \in {"wild", "var"} IN
                            [ok |-> r.ok, U |-> IF hasDefault THEN r.U ELSE U]
      [] OTHER -> [ok |-> TRUE, U |-> U]

IsNullableTy(ty) == ty \in {"Int?", "Str?", "Bool?", "Float?", "A?", "B?"}
ClassFieldsOK(c) ==
    LET must == {c.fields[j].n : j \in {j \in 1..Len(c.fields) : c.fields[j].e.k = "absent" /\ ~IsNullableTy(c.fields[j].ty)}}
        inits == {j \in 1..Len(c.methods) : c.methods[j].n = "__init__"} IN
    \A j \in inits : LET r == FB(c.methods[j].b, must, 1) IN r.ok /\ r.U = {}

DA(p, lenient) ==
    /\ DAB(p.stmts, Builtins, Globals(p), lenient).ok
    /\ \A j \in 1..Len(p.stmts) : p.stmts[j].k = "class" => ClassFieldsOK(p.stmts[j])

V(b) == IF b THEN "accept" ELSE "reject"
Verdicts(p) == {V(DA(p, FALSE)), V(DA(p, TRUE))}
=====================================================================================
