INIT Init
NEXT Next
CONSTANT MaxNames = 3
INVARIANT Emit
CHECK_DEADLOCK FALSE
