----------------------------------- MODULE PyExpr -----------------------------------
(* C10: printed expressions keep their structure.                                                       *)
(*                                                                                                       *)
(* Trees   : expression trees in the vocabulary of the generator's `Core` (bounded families).            *)
(* PyOf    : the Python tree a Core tree denotes (desugarings: isinstance call, E-notation product,      *)
(*           math.sqrt call, method call).                                                               *)
(* Pr      : faithful model of the generator's printer `to_py` as a token sequence (precedence-aware     *)
(*           parenthesisation).                                                                          *)
(* Parse   : Python's expression grammar (the relevant fragment) as a recursive-descent parser over      *)
(*           tokens - the abstract layer: it knows nothing about how Print decided to parenthesise.      *)
(* RoundTrip == Parse(Pr(t)) = PyOf(t)   is the property, model-checked for every tree of the family. *)
EXTENDS Naturals, Sequences, FiniteSets, TLC

Id(v)        == [k |-> "id", v |-> v]
IntL(v)      == [k |-> "int", v |-> v]
Bin(op,l,r)  == [k |-> "bin", op |-> op, l |-> l, r |-> r]
Un(op,e)     == [k |-> "un", op |-> op, e |-> e]
Tern(c,t,e)  == [k |-> "tern", c |-> c, t |-> t, e |-> e]
Lam(a,b)     == [k |-> "lambda", args |-> a, b |-> b]
Call(f,a)    == [k |-> "call", f |-> f, args |-> a]
Attr(o,n)    == [k |-> "attr", o |-> o, n |-> n]
MCall(o,n,a) == [k |-> "mcall", o |-> o, n |-> n, args |-> a]
Index(o,i)   == [k |-> "index", o |-> o, i |-> i]
IsA(l,r)     == [k |-> "isa", l |-> l, r |-> r]
ENum(n,e)    == [k |-> "enum", n |-> n, e |-> e]
Sqrt(e)      == [k |-> "sqrt", e |-> e]
Tup(es)      == [k |-> "tuple", es |-> es]
List(es)     == [k |-> "list", es |-> es]
Chain(es)    == [k |-> "chain", es |-> es]     \* only produced by Parse: a < b < c

----------------------------------------------------------------------------------------
\* Python operator table: binding strength, higher binds tighter.
CmpOps == {"<", "<=", ">", ">=", "==", "!=", "is", "is not", "in"}
BinPrec(op) == CASE op = "or" -> 3 [] op = "and" -> 4 [] op \in CmpOps -> 6
                 [] op = "|" -> 7 [] op = "^" -> 8 [] op = "&" -> 9 [] op \in {"<<", ">>"} -> 10
                 [] op \in {"+", "-"} -> 11 [] op \in {"*", "/", "//", "%"} -> 12 [] op = "**" -> 14
UnPrec(op) == IF op = "not" THEN 5 ELSE 13
AllBinOps == {"or", "and", "|", "^", "&", "<<", ">>", "+", "-", "*", "/", "//", "%", "**"} \cup CmpOps
AllUnOps  == {"not", "+", "-", "~"}

Prec(t) == CASE t.k = "lambda" -> 1 [] t.k = "tern" -> 2 [] t.k = "bin" -> BinPrec(t.op)
             [] t.k = "un" -> UnPrec(t.op) [] OTHER -> 17

\* minimal binding strength demanded of the left / right operand of a binary operator
LMin(op) == IF op = "**" THEN 15 ELSE IF op \in CmpOps THEN 7 ELSE BinPrec(op)
RMin(op) == IF op = "**" THEN 13 ELSE BinPrec(op) + 1

----------------------------------------------------------------------------------------
\* The Python tree denoted by a Core tree.
RECURSIVE PyOf(_)
PySeq(es) == [j \in 1..Len(es) |-> PyOf(es[j])]
PyOf(t) ==
    CASE t.k \in {"id", "int"} -> t
      [] t.k = "bin"    -> Bin(t.op, PyOf(t.l), PyOf(t.r))
      [] t.k = "un"     -> Un(t.op, PyOf(t.e))
      [] t.k = "tern"   -> Tern(PyOf(t.c), PyOf(t.t), PyOf(t.e))
      [] t.k = "lambda" -> Lam(t.args, PyOf(t.b))
      [] t.k = "call"   -> Call(PyOf(t.f), PySeq(t.args))
      [] t.k = "attr"   -> Attr(PyOf(t.o), t.n)
      [] t.k = "mcall"  -> Call(Attr(PyOf(t.o), t.n), PySeq(t.args))
      [] t.k = "index"  -> Index(PyOf(t.o), PyOf(t.i))
      [] t.k = "isa"    -> Call(Id("isinstance"), <<PyOf(t.l), PyOf(t.r)>>)
      [] t.k = "enum"   -> Bin("*", IntL(t.n), Bin("**", IntL("10"), IntL(t.e)))
      [] t.k = "sqrt"   -> Call(Attr(Id("math"), "sqrt"), <<PyOf(t.e)>>)
      [] t.k = "tuple"  -> Tup(PySeq(t.es))
      [] t.k = "list"   -> List(PySeq(t.es))

----------------------------------------------------------------------------------------
\* Faithful model of the printer (generate/ast/mod.rs: to_py / operand / precedence).
RECURSIVE Pr(_), Operand(_, _), PrintList(_, _)
Operand(t, min) == IF Prec(t) < min THEN <<"(">> \o Pr(t) \o <<")">> ELSE Pr(t)
\* the object of a postfix form; an integer literal needs parentheses before "."
Object(t, dot) == IF dot /\ t.k = "int" THEN <<"(">> \o Pr(t) \o <<")">> ELSE Operand(t, 16)
PrintList(es, j) == IF j > Len(es) THEN <<>>
                    ELSE Operand(es[j], 1) \o (IF j < Len(es) THEN <<",">> ELSE <<>>) \o PrintList(es, j + 1)
Pr(t) ==
    CASE t.k \in {"id", "int"} -> <<t.v>>
      [] t.k = "bin"    -> Operand(t.l, LMin(t.op)) \o <<t.op>> \o Operand(t.r, RMin(t.op))
      [] t.k = "un"     -> <<t.op>> \o Operand(t.e, UnPrec(t.op))
      [] t.k = "tern"   -> Operand(t.t, 3) \o <<"if">> \o Operand(t.c, 3) \o <<"else">> \o Operand(t.e, 2)
      [] t.k = "lambda" -> <<"lambda">> \o [j \in 1..(2 * Len(t.args) - 1) |-> IF j % 2 = 1 THEN t.args[(j + 1) \div 2] ELSE ","]
                           \o <<":">> \o Operand(t.b, 1)
      [] t.k = "call"   -> Object(t.f, FALSE) \o <<"(">> \o PrintList(t.args, 1) \o <<")">>
      [] t.k = "attr"   -> Object(t.o, TRUE) \o <<".", t.n>>
      [] t.k = "mcall"  -> Object(t.o, TRUE) \o <<".", t.n, "(">> \o PrintList(t.args, 1) \o <<")">>
      [] t.k = "index"  -> Object(t.o, FALSE) \o <<"[">> \o Operand(t.i, 0) \o <<"]">>
      [] t.k = "isa"    -> <<"isinstance", "(">> \o Operand(t.l, 1) \o <<",">> \o Operand(t.r, 1) \o <<")">>
      [] t.k = "enum"   -> <<"(", t.n, "*", "10", "**", t.e, ")">>
      [] t.k = "sqrt"   -> <<"math", ".", "sqrt", "(">> \o Operand(t.e, 1) \o <<")">>
      [] t.k = "tuple"  -> <<"(">> \o PrintList(t.es, 1) \o (IF Len(t.es) = 1 THEN <<",">> ELSE <<>>) \o <<")">>
      [] t.k = "list"   -> <<"[">> \o PrintList(t.es, 1) \o <<"]">>

----------------------------------------------------------------------------------------
\* Python's expression grammar (fragment), recursive descent.  A parse result is [t |-> tree, p |-> next index];
\* failure is [t |-> [k |-> "error"], p |-> 0].
Err == [t |-> [k |-> "error"], p |-> 0]
Tk(ts, p) == IF p <= Len(ts) THEN ts[p] ELSE "<end>"
Reserved == {"(", ")", "[", "]", ",", ":", ".", "if", "else", "lambda", "not", "<end>"} \cup AllBinOps \cup AllUnOps
IsDigit(s) == s \in {"0", "1", "2", "3", "4", "5", "6", "7", "8", "9", "10", "12"}

\* binary levels, loosest first; each parses operands at the next level (left associative)
LevelOps == << {"or"}, {"and"}, {"|"}, {"^"}, {"&"}, {"<<", ">>"}, {"+", "-"}, {"*", "/", "//", "%"} >>

RECURSIVE PTest(_, _), PLevel(_, _, _), PLoop(_, _, _, _), PNot(_, _), PCmp(_, _), PCmpLoop(_, _, _, _), PFactor(_, _),
          PPower(_, _), PTrailers(_, _, _), PAtom(_, _), PArgs(_, _, _, _), PParams(_, _, _)

\* lambda | or_test ['if' or_test 'else' test]
PTest(ts, p) ==
    IF Tk(ts, p) = "lambda" THEN
        LET ps == PParams(ts, p + 1, <<>>) IN
        IF ps.p = 0 THEN Err ELSE
        LET b == PTest(ts, ps.p) IN IF b.p = 0 THEN Err ELSE [t |-> Lam(ps.t, b.t), p |-> b.p]
    ELSE
        LET a == PLevel(1, ts, p) IN
        IF a.p = 0 THEN Err
        ELSE IF Tk(ts, a.p) = "if" THEN
            LET c == PLevel(1, ts, a.p + 1) IN
            IF c.p = 0 \/ Tk(ts, c.p) # "else" THEN Err ELSE
            LET e == PTest(ts, c.p + 1) IN IF e.p = 0 THEN Err ELSE [t |-> Tern(c.t, a.t, e.t), p |-> e.p]
        ELSE a

PParams(ts, p, acc) ==
    IF Tk(ts, p) = ":" THEN [t |-> acc, p |-> p + 1]
    ELSE IF Tk(ts, p) \in Reserved THEN [t |-> acc, p |-> 0]
    ELSE IF Tk(ts, p + 1) = "," THEN PParams(ts, p + 2, Append(acc, Tk(ts, p)))
    ELSE IF Tk(ts, p + 1) = ":" THEN [t |-> Append(acc, Tk(ts, p)), p |-> p + 2]
    ELSE [t |-> acc, p |-> 0]

\* level n of LevelOps; "not" sits between and (2) and comparison; comparison between not and "|" (3)
PLevel(n, ts, p) ==
    IF n = 3 THEN PNot(ts, p)
    ELSE IF n > Len(LevelOps) + 1 THEN PFactor(ts, p)
    ELSE LET a == PLevel(n + 1, ts, p) IN IF a.p = 0 THEN Err ELSE PLoop(n, ts, a.p, a.t)
\* index into LevelOps: levels 1,2 are or/and; level 3 is the not/comparison pair; levels 4.. are LevelOps[n-1]
OpsOf(n) == IF n <= 2 THEN LevelOps[n] ELSE LevelOps[n - 1]
PLoop(n, ts, p, left) ==
    IF Tk(ts, p) \in OpsOf(n) THEN
        LET b == PLevel(n + 1, ts, p + 1) IN
        IF b.p = 0 THEN Err ELSE PLoop(n, ts, b.p, Bin(Tk(ts, p), left, b.t))
    ELSE [t |-> left, p |-> p]

PNot(ts, p) ==
    IF Tk(ts, p) = "not" THEN
        LET a == PNot(ts, p + 1) IN IF a.p = 0 THEN Err ELSE [t |-> Un("not", a.t), p |-> a.p]
    ELSE PCmp(ts, p)

\* comparison: expr (op expr)* ; one operator gives a binary node, more give a chain
PCmp(ts, p) ==
    LET a == PLevel(4, ts, p) IN IF a.p = 0 THEN Err ELSE PCmpLoop(ts, a.p, <<a.t>>, <<>>)
PCmpLoop(ts, p, operands, ops) ==
    IF Tk(ts, p) \in CmpOps THEN
        LET b == PLevel(4, ts, p + 1) IN
        IF b.p = 0 THEN Err ELSE PCmpLoop(ts, b.p, Append(operands, b.t), Append(ops, Tk(ts, p)))
    ELSE IF Len(ops) = 0 THEN [t |-> operands[1], p |-> p]
    ELSE IF Len(ops) = 1 THEN [t |-> Bin(ops[1], operands[1], operands[2]), p |-> p]
    ELSE [t |-> Chain(operands), p |-> p]

PFactor(ts, p) ==
    IF Tk(ts, p) \in {"+", "-", "~"} THEN
        LET a == PFactor(ts, p + 1) IN IF a.p = 0 THEN Err ELSE [t |-> Un(Tk(ts, p), a.t), p |-> a.p]
    ELSE PPower(ts, p)

PPower(ts, p) ==
    LET a == PAtom(ts, p) IN
    IF a.p = 0 THEN Err ELSE
    LET b == PTrailers(ts, a.p, a.t) IN
    IF b.p = 0 THEN Err
    ELSE IF Tk(ts, b.p) = "**" THEN
        LET e == PFactor(ts, b.p + 1) IN IF e.p = 0 THEN Err ELSE [t |-> Bin("**", b.t, e.t), p |-> e.p]
    ELSE b

PTrailers(ts, p, obj) ==
    CASE Tk(ts, p) = "(" ->
            LET a == PArgs(ts, p + 1, <<>>, ")") IN
            IF a.p = 0 THEN Err ELSE PTrailers(ts, a.p, Call(obj, a.t))
      [] Tk(ts, p) = "[" ->
            LET i == PTest(ts, p + 1) IN
            IF i.p = 0 \/ Tk(ts, i.p) # "]" THEN Err ELSE PTrailers(ts, i.p + 1, Index(obj, i.t))
      [] Tk(ts, p) = "." ->
            IF Tk(ts, p + 1) \in Reserved THEN Err ELSE PTrailers(ts, p + 2, Attr(obj, Tk(ts, p + 1)))
      [] OTHER -> [t |-> obj, p |-> p]

\* comma separated tests up to the closing token; result t is the sequence, p is behind the closer;
\* a trailing comma is allowed (and is what makes a 1-tuple)
PArgs(ts, p, acc, close) ==
    IF Tk(ts, p) = close THEN [t |-> acc, p |-> p + 1, trailing |-> FALSE]
    ELSE LET a == PTest(ts, p) IN
         IF a.p = 0 THEN [t |-> acc, p |-> 0, trailing |-> FALSE]
         ELSE IF Tk(ts, a.p) = "," THEN
                 IF Tk(ts, a.p + 1) = close THEN [t |-> Append(acc, a.t), p |-> a.p + 2, trailing |-> TRUE]
                 ELSE PArgs(ts, a.p + 1, Append(acc, a.t), close)
         ELSE IF Tk(ts, a.p) = close THEN [t |-> Append(acc, a.t), p |-> a.p + 1, trailing |-> FALSE]
         ELSE [t |-> acc, p |-> 0, trailing |-> FALSE]

PAtom(ts, p) ==
    CASE Tk(ts, p) = "(" ->
            LET a == PArgs(ts, p + 1, <<>>, ")") IN
            IF a.p = 0 THEN Err
            ELSE IF Len(a.t) = 1 /\ ~a.trailing THEN [t |-> a.t[1], p |-> a.p]     \* parentheses
            ELSE [t |-> Tup(a.t), p |-> a.p]
      [] Tk(ts, p) = "[" ->
            LET a == PArgs(ts, p + 1, <<>>, "]") IN IF a.p = 0 THEN Err ELSE [t |-> List(a.t), p |-> a.p]
      [] Tk(ts, p) \in Reserved -> Err
      [] IsDigit(Tk(ts, p)) -> [t |-> IntL(Tk(ts, p)), p |-> p + 1]
      [] OTHER -> [t |-> Id(Tk(ts, p)), p |-> p + 1]

Parse(ts) == LET a == PTest(ts, 1) IN IF a.p = Len(ts) + 1 THEN a.t ELSE [k |-> "error"]

RoundTrip(t) == Parse(Pr(t)) = PyOf(t)
=====================================================================================
