SPECIFICATION Spec
CONSTANT MaxFiles = 3
INVARIANT OutputXorDiagnostics
INVARIANT NoOutputBeforeAllChecked
PROPERTY Terminates
CHECK_DEADLOCK FALSE
