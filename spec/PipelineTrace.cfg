INIT TInit
NEXT TNext
CONSTANT MaxFiles = 8
INVARIANT Report3
INVARIANT Safe
CHECK_DEADLOCK FALSE
