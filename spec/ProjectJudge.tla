---------------------------------- MODULE ProjectJudge ----------------------------------
(* C13, role R3: judge of recorded project runs.  One record per project:                                   *)
(*   files    : the project (as emitted by MC_Project)                                                       *)
(*   run1/run2: first and second transpile_dir into the same output directory: [ok, tree |-> <<[path, sha]>>, *)
(*              blamed |-> paths named in the diagnostics, events |-> Read/Write/stage events]                *)
(*   perms    : direct pipeline calls with every presentation order: [ok, blamed, outs |-> digest per FILE]   *)
(*   pre      : the output directory was pre-populated with longer stale files at every target path                 *)
(*   extra    : the same with an unrelated additional file: [ok, outs |-> digest per original file]           *)
EXTENDS Project, Json, IOUtils

Rec == ndJsonDeserialize(IOEnv.TRACE)
AsSet(s) == {s[j] : j \in 1..Len(s)}
TreePaths(run) == {run.tree[j].path : j \in 1..Len(run.tree)}
Proj(o) == [j \in 1..Len(o.files) |-> File(o.files[j].path, o.files[j].uses, o.files[j].fault)]

\* no Write event before the last stage ended successfully
WritesAfterAllChecked(run) ==
    \A j \in 1..Len(run.events) : run.events[j].ev = "write" =>
        \E k \in 1..(j - 1) : run.events[k].ev = "end" /\ run.events[k].stage = "generate" /\ run.events[k].n_err = 0

Judge(o) ==
    LET e == Expected(Proj(o)) IN
    IF o.panic THEN "violation:panic"
    ELSE IF o.run1.ok # e.ok THEN "violation:verdict"
    \* an already populated output directory (o.pre): every target existed with stale content; a failing run must leave it untouched
    ELSE IF ~e.ok /\ o.pre THEN (IF \A j \in 1..Len(o.run1.tree) : o.run1.tree[j].sha = o.stale_sha THEN
                                     (IF AsSet(o.run1.blamed) # {SrcPaths[x] : x \in e.blamed} THEN "violation:diagnostics-name-wrong-files" ELSE "ok")
                                 ELSE "violation:python-written-despite-errors")
    ELSE IF TreePaths(o.run1) # {PyPaths[x] : x \in e.tree} THEN (IF e.ok THEN "violation:layout-not-mirrored" ELSE "violation:python-written-despite-errors")
    ELSE IF ~e.ok /\ AsSet(o.run1.blamed) # {SrcPaths[x] : x \in e.blamed} THEN "violation:diagnostics-name-wrong-files"
    ELSE IF ~WritesAfterAllChecked(o.run1) THEN "violation:write-before-all-files-checked"
    ELSE IF o.run2.ok # o.run1.ok \/ o.run2.tree # o.run1.tree THEN "violation:second-run-differs"
    ELSE IF \E j \in 1..Len(o.perms) : o.perms[j].ok # e.ok THEN "violation:verdict-depends-on-order"
    ELSE IF \E j \in 1..Len(o.perms) : ~e.ok /\ AsSet(o.perms[j].blamed) # {SrcPaths[x] : x \in e.blamed} THEN "violation:diagnostics-depend-on-order"
    ELSE IF e.ok /\ \E j \in 1..Len(o.perms) : o.perms[j].outs # o.perms[1].outs THEN "violation:output-depends-on-order"
    ELSE IF e.ok /\ [j \in 1..Len(o.run1.tree) |-> o.run1.tree[j].sha] # o.written_expected THEN "violation:files-written-differ-from-pipeline-output"
    ELSE IF o.has_extra /\ (o.extra.ok # e.ok \/ (e.ok /\ o.extra.outs # o.perms[1].outs)) THEN "violation:unrelated-file-interferes"
    ELSE "ok"

VARIABLE r
Init == r \in 1..Len(Rec)
Next == UNCHANGED r
Report == PrintT("@@" \o ToJson([id |-> Rec[r].id, v |-> Judge(Rec[r])]))
=====================================================================================
