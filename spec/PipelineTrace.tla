--------------------------------- MODULE PipelineTrace ---------------------------------
(* C03, role R3: trace validation of pipeline runs recorded from the real code (stage events of the        *)
(* guarded hooks in src/lib.rs, step counters, the returned value, how the worker ended) against           *)
(* Pipeline.tla.  One record per input; one step per recorded event; the trace is accepted iff it is a      *)
(* behaviour of Pipeline that ends in Done or Reported, within the step bound.  A panic, an abort (stack    *)
(* overflow) or a hang leaves a trace that cannot be completed - there is no such action in Pipeline.       *)
EXTENDS Pipeline, Json, IOUtils

Rec == ndJsonDeserialize(IOEnv.TRACE)

VARIABLES r, l, v      \* record, events consumed, verdict
tvars == <<r, l, v, stage, files, nok, nerr, outs, diags>>

PhaseIdx(name) == CHOOSE j \in 1..Len(Phases) : Phases[j] = name
Ev == Rec[r].events[l + 1]

TInit == /\ r \in 1..Len(Rec) /\ l = 0 /\ v = "run"
         /\ stage = St("idle", 0) /\ files = Rec[r].files /\ nok = 0 /\ nerr = 0 /\ outs = 0 /\ diags = 0

\* step bound: polynomial in the input size (characters n, tokens t); constants are 20x the worst ratio measured on the
\* repository's samples and the generated families (see DESIGN.md, C03)
StepBound(o) == LET n == o.chars IN
                /\ o.counters.tokens <= 8 + 2 * n
                /\ o.counters.constraints <= 200 + 60 * n
                /\ o.counters.unify_steps <= 2000 + 400 * n + 4 * n * n

Consume ==
    /\ v = "run" /\ l < Len(Rec[r].events)
    /\ \/ Ev.ev = "begin" /\ Begin(PhaseIdx(Ev.stage)) /\ Ev.files = files
       \/ Ev.ev = "end" /\ End(PhaseIdx(Ev.stage), Ev.n_ok, Ev.n_err)
    /\ l' = l + 1 /\ UNCHANGED <<r, v>>
\* the hooks cannot observe a phase that fails by early return (context building): the failure is inferred from the
\* returned value
SilentFail ==
    /\ v = "run" /\ l = Len(Rec[r].events) /\ stage.kind = "run" /\ Phases[stage.j] = "context"
    /\ Rec[r].how = "returned" /\ ~Rec[r].ok
    /\ End(stage.j, 0, 1) /\ UNCHANGED <<r, l, v>>
Return ==
    /\ v = "run" /\ l = Len(Rec[r].events) /\ Rec[r].how = "returned"
    /\ \/ Rec[r].ok /\ Finish /\ outs' = Rec[r].n
       \/ ~Rec[r].ok /\ Report(Rec[r].n)
    /\ v' = IF StepBound(Rec[r]) THEN "ok" ELSE "violation:step-bound-exceeded"
    /\ UNCHANGED <<r, l>>
\* no way to continue: classify
Stuck ==
    /\ v = "run" /\ ~ENABLED Consume /\ ~ENABLED SilentFail /\ ~ENABLED Return
    /\ v' = IF Rec[r].how = "panicked" THEN "violation:panic"
            ELSE IF Rec[r].how = "died" THEN "violation:abort"
            ELSE IF Rec[r].how = "hung" THEN "violation:hang"
            ELSE "violation:not-a-behaviour-of-the-pipeline"
    /\ UNCHANGED <<r, l, stage, files, nok, nerr, outs, diags>>
TNext == Consume \/ SilentFail \/ Return \/ Stuck

Report3 == v # "run" => PrintT("@@" \o ToJson([id |-> Rec[r].id, v |-> v, l |-> l, stage |-> stage]))
Safe == OutputXorDiagnostics /\ NoOutputBeforeAllChecked
=====================================================================================
