Logging is disabled (Z3SolverContext.debug = false). Activate with --debug.
