----------------------------------- MODULE ImportsInd -----------------------------------
(* C16 add-on (Apalache, unbounded): the invariants of spec/Imports.tla hold for operation sequences of ANY length.  The same state  *)
(* machine without the history bound L: `reg` is the set of operations registered so far.  IndInv is inductive:                       *)
(*   apalache-mc check --init=Init --inv=IndInv --length=0        (Init => IndInv)                                                    *)
(*   apalache-mc check --init=IndInit --inv=IndInv --length=1     (IndInv /\ Next => IndInv')                                         *)
EXTENDS Integers, Sequences, FiniteSets, Apalache

\* @typeAlias: op = {op: Str, m: Str, n: Str};
ImportsInd_aliases == TRUE

VARIABLES
    \* @type: Seq(Str);
    plain,
    \* @type: Str -> Seq(Str);
    from,
    \* @type: Set($op);
    reg

Names == {"ABC", "Any", "Callable", "Optional", "Tuple", "Union", "abstractmethod"}
Modules == {"typing", "abc"}
PlainModules == {"math", "typing"}
\* @type: Set($op);
Ops == { [op |-> "import", m |-> m, n |-> ""] : m \in PlainModules }
       \cup { [op |-> "from", m |-> "typing", n |-> n] : n \in {"Optional", "Union", "Tuple", "Callable", "Any"} }
       \cup { [op |-> "from", m |-> "abc", n |-> n] : n \in {"ABC", "abstractmethod"} }

\* @type: Str => Int;
Pos(x) == IF x = "ABC" THEN 1 ELSE IF x = "Any" THEN 2 ELSE IF x = "Callable" THEN 3 ELSE IF x = "Optional" THEN 4
          ELSE IF x = "Tuple" THEN 5 ELSE IF x = "Union" THEN 6 ELSE 7
\* @type: Seq(Str) => Set(Str);
Elems(s) == {s[j] : j \in DOMAIN s}
\* insertion of n into the sorted sequence s (as BTreeSet / sort + dedup in the code): position = number of smaller names
\* @type: (Seq(Str), Str) => Seq(Str);
Insert(s, n) ==
    IF n \in Elems(s) THEN s
    ELSE LET k == Cardinality({j \in DOMAIN s : Pos(s[j]) < Pos(n)}) IN
         SubSeq(s, 1, k) \o <<n>> \o SubSeq(s, k + 1, Len(s))

Init == plain = <<>> /\ from = [m \in Modules |-> <<>>] /\ reg = {}
AddImport(m) == /\ plain' = IF m \in Elems(plain) THEN plain ELSE Append(plain, m)
                /\ UNCHANGED from
AddFrom(m, n) == /\ from' = [from EXCEPT ![m] = Insert(from[m], n)]
                 /\ UNCHANGED plain
Next == \E o \in Ops : /\ (IF o.op = "import" THEN AddImport(o.m) ELSE AddFrom(o.m, o.n))
                       /\ reg' = reg \cup {o}

TypeOK == /\ Len(plain) <= 2 /\ Elems(plain) \subseteq PlainModules
          /\ DOMAIN from = Modules
          /\ \A m \in Modules : Len(from[m]) <= 7 /\ Elems(from[m]) \subseteq Names
          /\ reg \subseteq Ops
NoDuplicates == /\ \A a, b \in DOMAIN plain : a # b => plain[a] # plain[b]
                /\ \A m \in Modules : \A a, b \in DOMAIN from[m] : a # b => from[m][a] # from[m][b]
SortedNames == \A m \in Modules : \A a, b \in DOMAIN from[m] : a < b => Pos(from[m][a]) < Pos(from[m][b])
PresentIffRegistered == \A o \in Ops : (o \in reg) <=> (IF o.op = "import" THEN o.m \in Elems(plain) ELSE o.n \in Elems(from[o.m]))
IndInv == TypeOK /\ NoDuplicates /\ SortedNames /\ PresentIffRegistered

\* an arbitrary state that satisfies the invariant (for the inductive step)
IndInit == /\ plain = Gen(2)
           /\ from = Gen(7)
           /\ reg = Gen(9)
           /\ IndInv
=====================================================================================
