----------------------------------- MODULE MC_C04 -----------------------------------
(* C04: type-changing edits at the positions the other grids do not cover: every operand of every operator *)
(* at every core type, receivers, field reads, indexing, loop collections, conditions.  No expected verdict *)
(* is attached: whatever the checker accepts is executed and must not go wrong.                             *)
EXTENDS MambaStatic, Json

CONSTANTS Depth, Part     \* Part: "operands" | "receivers"

OTys == {"Int", "Float", "Str", "Bool", "A", "None"}
Probe(kind, decls, setup, stmts, note) ==
    [kind |-> kind, decls |-> decls, setup |-> setup, stmts |-> stmts, writes |-> FALSE, note |-> note]
KDecls == ClassDecls \o <<Class("K", <<>>, <<>>, <<Def("fld", TRUE, "Int", IntL(1))>>, <<Method("m", TRUE, <<>>, "Int", <<>>, <<Expr(IntL(7))>>)>>),
                          Fun("f", <<Param("p", "Int", Absent)>>, "Int", <<>>, <<Expr(Var("p"))>>)>>
At(t, form) == AtomE(NT(t, FALSE), form)
Su(t, form) == AtomSetup(NT(t, FALSE), form)

OperandProbes ==
    { Probe("operand", KDecls, Su(t1, form) \o (IF t1 = t2 THEN <<>> ELSE Su(t2, form)),
            <<IF use = "stmt" THEN Expr(Bin(op, At(t1, form), At(t2, form))) ELSE Def("r", TRUE, "", Bin(op, At(t1, form), At(t2, form)))>>,
            [op |-> op, left |-> t1, right |-> t2, form |-> form, use |-> use])
      : op \in {"+", "-", "*", "//", "mod", "^", "<", "<=", ">", ">=", "=", "and", "or", "/"}, t1 \in OTys, t2 \in OTys, form \in {"lit", "var"}, use \in {"stmt", "init"} }
  \cup
    { Probe("unary", KDecls, Su(t, form), <<Def("r", TRUE, "", IF op = "not" THEN Not(At(t, form)) ELSE Neg(At(t, form)))>>, [op |-> op, operand |-> t, form |-> form])
      : op \in {"not", "neg"}, t \in OTys, form \in {"lit", "var"} }

RecvStmts(e) == { Expr(MCall(e, "m", <<>>)), Expr(Field(e, "fld")), FAssign(e, "fld", IntL(2)),
                  Expr(Index(e, IntL(0))), For("i", e, <<PrintS(StrL("it"))>>),
                  If(e, <<PrintS(StrL("y"))>>, <<>>), While(e, <<Ret0>>),
                  Expr(Call("f", <<e>>)), Expr(MCall(e, "undefined_method", <<>>)), Expr(Field(e, "undefined_field")),
                  Match(e, <<Arm(IntL(1), <<PrintS(StrL("one"))>>), Arm(Wild, <<PrintS(StrL("other"))>>)>>),
                  For("i", Range(e, IntL(2), FALSE, Absent), <<PrintS(StrL("r"))>>),
                  PrintS(FStr(<<StrL("v="), e>>)) }
ReceiverProbes ==
    UNION { { Probe("receiver", KDecls, Su(q[1], q[2]), <<s>>, [receiver |-> q[1], form |-> q[2]]) : s \in RecvStmts(At(q[1], q[2])) }
            : q \in (OTys \cup {"K"}) \X {"lit", "var"} }

Probes == CASE Part = "operands" -> OperandProbes [] Part = "receivers" -> ReceiverProbes
Cases == { [prop |-> "C04", kind |-> p.kind, ctx |-> ctx, hoist |-> FALSE, expect |-> "n/a", note |-> p.note, prog |-> Plug(ctx, FALSE, p)]
           : p \in Probes, ctx \in Ctxs(Wrappers, Depth) }
VARIABLE c
Init == c \in Cases
Next == UNCHANGED c
Emit == PrintT("@@" \o ToJson(c))
=====================================================================================
