------------------------------------ MODULE Pipeline ------------------------------------
(* C03 (and the skeleton of C13 / C19): the transpiler's pipeline as a stage machine, shaped like        *)
(* mamba_to_python (src/lib.rs): all files are parsed, then one context is built, then all files are      *)
(* checked, then all are generated; the first phase in which some file fails ends the run with            *)
(* diagnostics.  There is deliberately no "crash" and no "hang" action: totality is the statement that     *)
(* every behaviour of the implementation is a behaviour of this machine that reaches Done or Reported.     *)
EXTENDS Naturals, Sequences, FiniteSets, TLC

CONSTANT MaxFiles
Phases == <<"parse", "context", "check", "generate">>

VARIABLES stage,     \* "idle" | "run:<phase>" | "ok:<phase>" | "failed" | "done" | "reported"   (encoded as records below)
          files,     \* number of input files
          nok, nerr, \* results of the phase that ended last
          outs,      \* number of outputs returned
          diags      \* number of diagnostics returned
vars == <<stage, files, nok, nerr, outs, diags>>

St(kind, j) == [kind |-> kind, j |-> j]        \* j: index into Phases (0 when not applicable)
Init == stage = St("idle", 0) /\ files \in 0..MaxFiles /\ nok = 0 /\ nerr = 0 /\ outs = 0 /\ diags = 0

Begin(j) == /\ (j = 1 /\ stage = St("idle", 0)) \/ (j > 1 /\ stage = St("ok", j - 1))
            /\ stage' = St("run", j) /\ UNCHANGED <<files, nok, nerr, outs, diags>>
\* a phase ends with ok + err = files results; the context phase has one result for all files
End(j, ok, err) == /\ stage = St("run", j)
                   /\ IF Phases[j] = "context" THEN (ok = files /\ err = 0) \/ (ok = 0 /\ err >= 1) ELSE ok + err = files
                   /\ nok' = ok /\ nerr' = err
                   /\ stage' = IF err > 0 THEN St("failed", j) ELSE St("ok", j)
                   /\ UNCHANGED <<files, outs, diags>>
\* diagnostics: at least one per failed input
Report(d) == /\ stage.kind = "failed" /\ d >= nerr /\ d >= 1
             /\ diags' = d /\ stage' = St("reported", stage.j) /\ UNCHANGED <<files, nok, nerr, outs>>
Finish == /\ stage = St("ok", Len(Phases))
          /\ outs' = files /\ stage' = St("done", 0) /\ UNCHANGED <<files, nok, nerr, diags>>

Next == \/ \E j \in 1..Len(Phases) : Begin(j)
        \/ \E j \in 1..Len(Phases), ok \in 0..MaxFiles, err \in 0..MaxFiles : End(j, ok, err)
        \/ \E d \in 1..(2 * MaxFiles + 2) : Report(d)
        \/ Finish
Spec == Init /\ [][Next]_vars /\ WF_vars(Next)

Terminal == stage.kind \in {"done", "reported"}
\* the pipeline returns outputs XOR diagnostics
OutputXorDiagnostics == /\ stage.kind = "done" => outs = files /\ diags = 0
                        /\ stage.kind = "reported" => diags >= 1 /\ outs = 0
NoOutputBeforeAllChecked == outs > 0 => stage.kind = "done"
Terminates == <>Terminal
=====================================================================================
