----------------------------------- MODULE MC_C09 -----------------------------------
(* C09 definite assignment.  Use/def patterns of a variable u (and of fields in a constructor), each      *)
(* plugged under every context nesting.  Expected verdict by the lexical rule of the documentation         *)
(* (MambaStatic.Defined...): a use is accepted iff a definition of the name is visible in the same or an  *)
(* enclosing block and precedes the use on every path; branches, loop bodies, match / handle arms and     *)
(* comprehensions do not export their definitions; a function body sees what precedes the `def`;           *)
(* shadowing gives later uses the new binding.  The one pattern the documentation leaves open - a name    *)
(* defined in BOTH branches and used after - may be answered either way.                                   *)
EXTENDS MambaStatic, MambaScope, Json

CONSTANTS Depth, Part     \* Part: "var" | "field" | "global"

Probe(kind, decls, stmts, expect, note) ==
    [kind |-> kind, decls |-> decls, setup |-> <<>>, stmts |-> stmts, writes |-> FALSE, expect |-> expect, note |-> note]

U == Var("u")
DefU(v) == Def("u", TRUE, "", IntL(v))
\* the forms of a use of an Int-valued name: printing needs a member lookup (__str__) on the name, the other forms do not
Use(e) == PrintS(e)
\* where the name is read: every position of an expression inside a statement - also the three operands of a range, a condition, an
\* element, an interpolated expression, a unary operand
UseForms == {"print", "typed-def", "untyped-def", "arg", "operand", "range-from", "range-to", "range-step", "condition", "while-condition", "element", "interpolated", "unary"}
UseF(form, e) == CASE form = "print" -> PrintS(e) [] form = "typed-def" -> Def("r_use", TRUE, "Int", e) [] form = "untyped-def" -> Def("r_use", TRUE, "", e)
                   [] form = "arg" -> Expr(Call("takes_int", <<e>>)) [] form = "operand" -> Def("r_use", TRUE, "Int", Bin("+", e, IntL(1)))
                   [] form = "range-from" -> For("q_use", Range(e, IntL(3), FALSE, Absent), <<PrintS(StrL("r"))>>)
                   [] form = "range-to"   -> For("q_use", Range(IntL(0), e, TRUE, Absent), <<PrintS(StrL("r"))>>)
                   [] form = "range-step" -> For("q_use", Range(IntL(0), IntL(3), FALSE, e), <<PrintS(StrL("r"))>>)
                   [] form = "condition"  -> If(Bin(">", e, IntL(0)), <<PrintS(StrL("c"))>>, <<>>)
                   [] form = "while-condition" -> While(Bin(">", e, IntL(5)), <<PrintS(StrL("w"))>>)
                   [] form = "element"    -> Def("r_use", TRUE, "", ListL(<<IntL(1), e>>))
                   [] form = "interpolated" -> PrintS(FStr(<<StrL("v "), e>>))
                   [] form = "unary"      -> Def("r_use", TRUE, "Int", Neg(e))
R01 == Range(IntL(0), IntL(1), FALSE, Absent)
Raw(s) == [k |-> "raw", v |-> s]

\* pattern name, statements, does a definition reach the use on every path (TRUE/FALSE/"either")
VarPatterns(form) == {
   <<"never-defined",      <<UseF(form, U)>>,                                                         "reject">>,
   <<"defined-later",      <<UseF(form, U), DefU(1)>>,                                                "reject">>,
   <<"defined-before",     <<DefU(1), UseF(form, U)>>,                                                "accept">>,
   <<"then-only",          <<If(BoolL(TRUE), <<DefU(1)>>, <<>>), UseF(form, U)>>,                      "reject">>,
   <<"then-only-with-else",<<If(BoolL(TRUE), <<DefU(1)>>, <<Filler>>), UseF(form, U)>>,                "reject">>,
   <<"else-only",          <<If(BoolL(TRUE), <<Filler>>, <<DefU(1)>>), UseF(form, U)>>,                "reject">>,
   \* the same with the OTHER path taken at run time (an accepted program of this shape goes wrong: C04)
   <<"then-only-else-taken", <<If(BoolL(FALSE), <<DefU(1)>>, <<Filler>>), UseF(form, U)>>,             "reject">>,
   <<"else-only-then-taken", <<If(BoolL(FALSE), <<Filler>>, <<DefU(1)>>), UseF(form, U)>>,             "reject">>,
   <<"both-branches",      <<If(BoolL(TRUE), <<DefU(1)>>, <<DefU(2)>>), UseF(form, U)>>,               "either">>,
   <<"used-inside-branch", <<If(BoolL(TRUE), <<DefU(1), UseF(form, U)>>, <<>>)>>,                      "accept">>,
   <<"for-body",           <<For("i", R01, <<DefU(1)>>), UseF(form, U)>>,                              "reject">>,
   <<"loop-variable-after",<<For("i", R01, <<Filler>>), UseF(form, Var("i"))>>,                        "reject">>,
   <<"loop-variable-inside",<<For("i", R01, <<UseF(form, Var("i"))>>)>>,                               "accept">>,
   <<"while-body",         <<While(BoolL(FALSE), <<DefU(1)>>), UseF(form, U)>>,                        "reject">>,
   <<"match-arm-def",      <<Match(IntL(1), <<Arm(IntL(1), <<DefU(1)>>), Arm(Wild, <<Filler>>)>>), UseF(form, U)>>, "reject">>,
   <<"arm-binder-outside", <<Match(IntL(1), <<Arm(Var("n"), <<UseF(form, Var("n"))>>)>>), UseF(form, Var("n"))>>,          "reject">>,
   <<"arm-binder-inside",  <<Match(IntL(1), <<Arm(Var("n"), <<UseF(form, Var("n"))>>)>>)>>,                         "accept">>,
   <<"comprehension-variable-outside", <<Def("l", TRUE, "", Raw("[x + 1 | x in [1, 2]]")), UseF(form, Var("x"))>>,  "reject">>,
   <<"comprehension-variable-inside",  <<Def("l", TRUE, "", Raw("[x + 1 | x in [1, 2]]"))>>,                 "accept">>,
   <<"handle-binder-outside", <<Handle(Def("a", TRUE, "Int", Call("p_raises", <<>>)), <<HArm("PErr", "err", <<PrintS(StrL("h")), Expr(IntL(0))>>)>>), PrintS(Var("err"))>>, "reject">>,
   <<"handle-binder-inside",  <<Handle(Def("a", TRUE, "Int", Call("p_raises", <<>>)), <<HArm("PErr", "err", <<PrintS(Var("err")), Expr(IntL(0))>>)>>), UseF(form, Var("a"))>>, "accept">>,
   <<"handle-target-after",   <<Handle(Def("a", TRUE, "Int", Call("p_raises", <<>>)), <<HArm("PErr", "err", <<Expr(IntL(0))>>)>>), UseF(form, Var("a"))>>, "accept">>,
   <<"shadow-new-type-ok", <<DefU(1), Def("u", TRUE, "", StrL("s")), Def("r", TRUE, "Str", U)>>, "accept">>,
   <<"shadow-new-type-old",<<DefU(1), Def("u", TRUE, "", StrL("s")), Def("r", TRUE, "Int", U)>>, "reject">>,
   <<"self-reference",     <<Def("u", TRUE, "Int", Bin("+", U, IntL(1)))>>,                      "reject">>,
   <<"nested-outer-visible", <<DefU(1), If(BoolL(TRUE), <<For("i", R01, <<UseF(form, U)>>)>>, <<>>)>>,  "accept">> }

\* (the handled definition is annotated: a local whose type is inferred from a handle is not usable in a second branch today)
PDecls == << Class("PErr", <<>>, <<Parent("Exception", <<>>)>>, <<>>, <<>>), Fun("p_raises", <<>>, "Int", <<"PErr">>, <<Raise("PErr", <<>>)>>),
            Fun("takes_int", <<Param("x", "Int", Absent)>>, "", <<>>, <<PrintS(StrL("t"))>>) >>
VarProbes == UNION { { Probe("def-" \o p[1], PDecls, p[2], p[3], [pattern |-> p[1], expected |-> p[3], use |-> form]) : p \in VarPatterns(form) } : form \in UseForms }

\* functions and globals (top level only)
GlobalPatterns == {
   <<"function-sees-earlier-global", <<DefU(1), Fun("f", <<>>, "Int", <<>>, <<Expr(U)>>), Use(Call("f", <<>>))>>, "accept">>,
   <<"function-uses-later-global",   <<Fun("f", <<>>, "Int", <<>>, <<Expr(U)>>), DefU(1)>>,                       "reject">>,
   <<"local-defined-later",          <<Fun("f", <<>>, "Int", <<>>, <<Use(Var("w")), Def("w", TRUE, "", IntL(1)), Expr(Var("w"))>>)>>, "reject">>,
   <<"local-defined-before",         <<Fun("f", <<>>, "Int", <<>>, <<Def("w", TRUE, "", IntL(1)), Use(Var("w")), Expr(Var("w"))>>)>>, "accept">>,
   <<"parameter-visible",            <<Fun("f", <<Param("p", "Int", Absent)>>, "Int", <<>>, <<If(BoolL(TRUE), <<Use(Var("p"))>>, <<>>), Expr(Var("p"))>>)>>, "accept">>,
   <<"local-not-visible-outside",    <<Fun("f", <<>>, "Int", <<>>, <<Def("w", TRUE, "", IntL(1)), Expr(Var("w"))>>), Use(Var("w"))>>, "reject">>,
   <<"call-before-function-definition", <<Use(Call("f", <<>>)), Fun("f", <<>>, "Int", <<>>, <<Expr(IntL(1))>>)>>, "reject">>,
   <<"call-after-function-definition",  <<Fun("f", <<>>, "Int", <<>>, <<Expr(IntL(1))>>), Use(Call("f", <<>>))>>, "accept">>,
   <<"later-function-called-from-function-body", <<Fun("f", <<>>, "Int", <<>>, <<Expr(Call("g", <<>>))>>), Fun("g", <<>>, "Int", <<>>, <<Expr(IntL(1))>>), Use(Call("f", <<>>))>>, "accept">>,
   <<"construct-before-class-definition", <<Def("k", TRUE, "", New("K", <<>>)), Class("K", <<>>, <<>>, <<>>, <<>>)>>, "reject">> }
GlobalProbes == { Probe("def-" \o p[1], <<>>, p[2], p[3], [pattern |-> p[1], expected |-> p[3]]) : p \in GlobalPatterns }

\* fields in a constructor: a non-nullable field must be assigned on every path before it is read and before the end
Fld(ty) == Def("fld", TRUE, ty, Absent)
Init(ps, body) == Method("__init__", TRUE, ps, "", <<>>, body)
SetF(v) == FAssign(Var("self"), "fld", IntL(v))
ReadF == Use(Field(Var("self"), "fld"))
C == Param("c", "Bool", Absent)
FieldPatterns == {
   <<"assigned",               "Int",  <<>>,  <<SetF(1)>>,                                         "accept">>,
   <<"read-before-assigned",   "Int",  <<>>,  <<ReadF, SetF(1)>>,                                  "reject">>,
   <<"read-after-assigned",    "Int",  <<>>,  <<SetF(1), ReadF>>,                                  "accept">>,
   <<"never-assigned",         "Int",  <<>>,  <<Filler>>,                                          "reject">>,
   <<"never-assigned-nullable","Int?", <<>>,  <<Filler>>,                                          "accept">>,
   <<"assigned-then-only",     "Int",  <<C>>, <<If(Var("c"), <<SetF(1)>>, <<>>)>>,                 "reject">>,
   <<"assigned-one-branch",    "Int",  <<C>>, <<If(Var("c"), <<SetF(1)>>, <<Filler>>)>>,           "reject">>,
   <<"assigned-both-branches", "Int",  <<C>>, <<If(Var("c"), <<SetF(1)>>, <<SetF(2)>>)>>,          "accept">>,
   <<"assigned-all-arms",      "Int",  <<>>,  <<Match(IntL(0), <<Arm(IntL(0), <<SetF(1)>>), Arm(Wild, <<SetF(2)>>)>>)>>, "accept">>,
   <<"assigned-one-arm",       "Int",  <<>>,  <<Match(IntL(0), <<Arm(IntL(0), <<SetF(1)>>), Arm(Wild, <<Filler>>)>>)>>, "reject">>,
   <<"assigned-in-loop-only",  "Int",  <<>>,  <<For("i", R01, <<SetF(1)>>)>>,                      "reject">>,
   <<"read-in-branch-before",  "Int",  <<C>>, <<If(Var("c"), <<ReadF>>, <<>>), SetF(1)>>,          "reject">>,
   \* a compound assignment reads the field: before the first assignment it is a read of an unassigned field, whatever follows
   <<"aug-before-assigned",    "Int",  <<>>,  <<FAug("+", Var("self"), "fld", IntL(1)), SetF(0)>>,     "reject">>,
   <<"first-assignment-reads-itself", "Int", <<>>, <<FAssign(Var("self"), "fld", Bin("+", Field(Var("self"), "fld"), IntL(1)))>>, "reject">>,
   <<"aug-only",               "Int",  <<>>,  <<FAug("+", Var("self"), "fld", IntL(1))>>,              "reject">>,
   <<"aug-after-assigned",     "Int",  <<>>,  <<SetF(0), FAug("+", Var("self"), "fld", IntL(1)), ReadF>>, "accept">>,
   <<"aug-in-branch-before",   "Int",  <<C>>, <<If(Var("c"), <<FAug("*", Var("self"), "fld", IntL(2))>>, <<>>), SetF(1)>>, "reject">>,
   \* an assignment to the same-named field of ANOTHER object does not initialise this one
   <<"assigned-through-other-object", "Int", <<Param("o", "Peer", Absent)>>, <<FAssign(Var("o"), "fld", IntL(1))>>,          "reject">>,
   <<"read-after-other-assigned",     "Int", <<Param("o", "Peer", Absent)>>, <<FAssign(Var("o"), "fld", IntL(1)), ReadF, SetF(2)>>, "reject">>,
   <<"other-then-self-assigned",      "Int", <<Param("o", "Peer", Absent)>>, <<FAssign(Var("o"), "fld", IntL(1)), SetF(2), ReadF>>, "accept">> }
\* (Peer: another class with a field of the same name; a parameter of the class itself would be annotated with a name that is
\*  not bound yet inside the class body - KF-C17-1)
FieldProbes == { Probe("field-" \o p[1], <<Class("Peer", <<>>, <<>>, <<Def("fld", TRUE, "Int", IntL(0))>>, <<>>), Class("K", <<>>, <<>>, <<Fld(p[2])>>, <<Init(p[3], p[4])>>)>>, <<Filler>>, p[5],
                       [pattern |-> p[1], expected |-> p[5]]) : p \in FieldPatterns }

Probes == CASE Part = "var" -> VarProbes [] Part = "field" -> FieldProbes [] Part = "global" -> GlobalProbes
Ctxts == IF Part = "var" THEN Ctxs(Wrappers, Depth) ELSE {<<>>}

Cases == { [prop |-> "C09", kind |-> p.kind, ctx |-> ctx, hoist |-> FALSE, expect |-> p.expect, note |-> p.note, prog |-> Plug(ctx, FALSE, p)]
           : p \in Probes, ctx \in Ctxts }
VARIABLE c
InitC == c \in Cases
Next == UNCHANGED c
Emit == PrintT("@@" \o ToJson(c))
\* R1: the pattern table agrees with the general analysis of MambaScope under every context
\* (shadow-new-type-old is rejected by the TYPE of the new binding, InitOK("Int", "Str") = FALSE, not by scope)
TableAgreesWithAnalysis == IF c.note.pattern = "shadow-new-type-old" THEN Verdicts(c.prog) = {"accept"} /\ ~InitOK("Int", "Str")
                           ELSE IF c.expect = "either" THEN Verdicts(c.prog) = {"accept", "reject"} ELSE Verdicts(c.prog) = {c.expect}
=====================================================================================
