--------------------------------- MODULE CompileJudge ---------------------------------
(* C02, role R3: every emitted module is accepted by the Python 3 compiler.  One record per (input, mode):  *)
(*   acc: the pipeline accepted the input; compiles: CPython's compile(text, name, "exec") succeeded.        *)
(* "A Mamba input is either rejected with diagnostics or yields loadable Python."                            *)
EXTENDS Naturals, Sequences, TLC, Json, IOUtils
Rec == ndJsonDeserialize(IOEnv.TRACE)
Judge(o) == IF o.panic THEN "skip:panic" ELSE IF ~o.acc THEN "ok:rejected" ELSE IF o.compiles THEN "ok" ELSE "violation:emitted-python-does-not-compile"
VARIABLE r
Init == r \in 1..Len(Rec)
Next == UNCHANGED r
Report == PrintT("@@" \o ToJson([id |-> Rec[r].id, v |-> Judge(Rec[r])]))
=====================================================================================
