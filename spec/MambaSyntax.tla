---------------------------------- MODULE MambaSyntax ----------------------------------
(* Abstract syntax of the executable core language of Mamba (DESIGN.md section 8), the type universe     *)
(* of the core, and the *context grid*: Plug(ctx, probe) puts a probe (a few statements with the         *)
(* declarations and variables they need) under every nesting of syntactic contexts.  The grid is the     *)
(* quantifier "at every position / in every statement context" of properties C01, C04-C09 made finite.   *)
(*                                                                                                        *)
(* Programs are records; py/render.py prints them as Mamba text (one statement per line, 4-space blocks, *)
(* every nested operand parenthesised).                                                                   *)
EXTENDS Naturals, Integers, Sequences, FiniteSets, TLC

----------------------------------------------------------------------------------------
\* expressions  (the payload field of a literal is named by its kind - v / s / b - so that records of different kinds never have a
\* common field with values of different types: TLC cannot compare such values when it normalises a set of programs)
IntL(n)      == [k |-> "int", v |-> n]
FloatL(s)    == [k |-> "float", s |-> s]            \* lexeme, e.g. "1.5" (no float arithmetic in the value-level core)
StrL(s)      == [k |-> "str", s |-> s]
BoolL(b)     == [k |-> "bool", b |-> b]
NoneL        == [k |-> "none"]
Var(n)       == [k |-> "var", n |-> n]
Bin(op,l,r)  == [k |-> "bin", op |-> op, l |-> l, r |-> r]   \* + - * // mod ^ < <= > >= = and or
Not(e)       == [k |-> "not", e |-> e]
Neg(e)       == [k |-> "neg", e |-> e]
IfE(c,t,e)   == [k |-> "ife", c |-> c, t |-> t, e |-> e]
Lam(ps,e)    == [k |-> "lam", ps |-> ps, e |-> e]                                  \* \x: T, y: U => e   (ps: parameters as in Fun; an anonymous function value)
ListB(e,n,it,cs) == [k |-> "listb", e |-> e, n |-> n, it |-> it, cs |-> cs]        \* list builder  [e | n in it, c1, c2 ..]  (it: expression or Range)
SetB(e,n,it,cs)  == [k |-> "setb", e |-> e, n |-> n, it |-> it, cs |-> cs]         \* set builder   {e | n in it, c1, c2 ..}
IfEB(c,t,e)  == [k |-> "ife", c |-> c, t |-> t, e |-> e, blk |-> TRUE]             \* the same expression written in block form (only as the right-hand side of a definition)
Call(f,a)    == [k |-> "call", f |-> f, args |-> a]
MCall(o,m,a) == [k |-> "mcall", o |-> o, m |-> m, args |-> a]
Field(o,n)   == [k |-> "field", o |-> o, n |-> n]
New(c,a)     == [k |-> "new", c |-> c, args |-> a]
ListL(es)    == [k |-> "list", es |-> es]
Index(o,i)   == [k |-> "index", o |-> o, i |-> i]
TupL(es)     == [k |-> "tuple", es |-> es]
QDef(l,r)    == [k |-> "qdef", l |-> l, r |-> r]              \* l ? r
FStr(ps)     == [k |-> "fstr", parts |-> ps]                  \* parts: StrL(..) is literal text, anything else a hole
Absent       == [k |-> "absent"]

\* statements
Def(n,mut,ty,e)  == [k |-> "def", n |-> n, mut |-> mut, ty |-> ty, e |-> e]     \* def [fin] n[: ty] [:= e]
DefTup(ns,mut,e) == [k |-> "deftup", ns |-> ns, mut |-> mut, e |-> e]           \* def (a, b) := e / def (fin a, b) := e
Assign(n,e)      == [k |-> "assign", n |-> n, e |-> e]
Aug(op,n,e)      == [k |-> "aug", op |-> op, n |-> n, e |-> e]
FAssign(o,f,e)   == [k |-> "fassign", o |-> o, f |-> f, e |-> e]                \* o.f := e
FAug(op,o,f,e)   == [k |-> "faug", op |-> op, o |-> o, f |-> f, e |-> e]
PrintS(e)        == [k |-> "print", e |-> e]
If(c,t,e)        == [k |-> "if", c |-> c, t |-> t, e |-> e]                     \* e = <<>> : no else
While(c,b)       == [k |-> "while", c |-> c, b |-> b]
Range(a,b,incl,step) == [k |-> "range", a |-> a, b |-> b, incl |-> incl, step |-> step]   \* step may be Absent
For(n,it,b)      == [k |-> "for", n |-> n, it |-> it, b |-> b]
Arm(p,b)         == [p |-> p, b |-> b]                                          \* pattern: IntL / StrL / Var (binder) / "_"
Wild             == [k |-> "wild"]
Match(e,arms)    == [k |-> "match", e |-> e, arms |-> arms]
Ret(e)           == [k |-> "ret", e |-> e]
Ret0             == [k |-> "ret0"]
Expr(e)          == [k |-> "expr", e |-> e]
Raise(c,a)       == [k |-> "raise", c |-> c, args |-> a]
HArm(c,n,b)      == [c |-> c, n |-> n, b |-> b]                                 \* n: binder or "_"
Handle(s,arms)   == [k |-> "handle", s |-> s, arms |-> arms]                    \* s: Def(..) or Expr(..)
Pass             == [k |-> "pass"]
With(r,a,ty,b)   == [k |-> "with", r |-> r, a |-> a, ty |-> ty, b |-> b]                 \* with r [as a[: ty]] do b   (a = "" : no alias)
Param(n,ty,d)    == [n |-> n, ty |-> ty, d |-> d]                               \* d: default expression or Absent
Fun(n,ps,ret,rs,b) == [k |-> "fun", n |-> n, ps |-> ps, ret |-> ret, raises |-> rs, b |-> b]
CArg(n,isdef,mut,ty,d) == [n |-> n, isdef |-> isdef, mut |-> mut, ty |-> ty, d |-> d]
Parent(c,a)      == [c |-> c, args |-> a]
\* fields: Def(..) statements; methods: Fun(..) whose first parameter is self (selfmut FALSE = `fin self`)
Class(n,args,parents,fields,methods) == [k |-> "class", n |-> n, args |-> args, parents |-> parents, fields |-> fields, methods |-> methods]
Method(n,selfmut,ps,ret,rs,b) == [k |-> "fun", n |-> n, self |-> TRUE, selfmut |-> selfmut, ps |-> ps, ret |-> ret, raises |-> rs, b |-> b]

Prog(stmts) == [stmts |-> stmts]

----------------------------------------------------------------------------------------
\* the context grid
\* A probe is [decls |-> top-level declarations (classes, functions), setup |-> statements defining the variables the
\*             probe needs, stmts |-> the probe statements, writes |-> does it assign to a setup variable].
\* A context is a sequence of wrappers, outermost first.  `hoist` leaves the setup outside the wrappers (in the
\* enclosing scope) so that the probe sees it through the nesting.
Wrappers == {"fun", "method", "for", "while", "then", "else", "arm", "harm"}

\* supporting declarations of the wrappers (only those that are used are added)
CtxDecls(ctx) ==
    (IF \E j \in 1..Len(ctx) : ctx[j] = "harm"
     THEN << Class("CtxErr", <<>>, <<Parent("Exception", <<>>)>>, <<>>, <<>>),
             Fun("ctx_raises", <<>>, "Int", <<"CtxErr">>, <<Raise("CtxErr", <<>>)>>) >>
     ELSE <<>>)

\* the statement of the branch that is not under test (`pass` next to a `return` is rejected by today's checker: it
\* types the branch as None; that quirk is recorded in DESIGN.md and kept out of the grid)
Filler == PrintS(StrL("skip"))

\* wrap statements `body` into wrapper w at nesting level j (names made unique by level)
Wrap(w, j, body) ==
    LET nm(base) == base \o ToString(j) IN
    CASE w = "fun"    -> << Fun(nm("ctx_f"), <<>>, "", <<>>, body), Expr(Call(nm("ctx_f"), <<>>)) >>
      [] w = "method" -> << Class(nm("CtxK"), <<>>, <<>>, <<>>, <<Method("run", TRUE, <<>>, "", <<>>, body)>>),
                            Expr(MCall(New(nm("CtxK"), <<>>), "run", <<>>)) >>
      [] w = "for"    -> << For(nm("ctx_i"), Range(IntL(0), IntL(1), FALSE, Absent), body) >>
      [] w = "while"  -> << Def(nm("ctx_w"), TRUE, "", IntL(0)),
                            While(Bin("<", Var(nm("ctx_w")), IntL(1)), body \o <<Assign(nm("ctx_w"), IntL(1))>>) >>
      [] w = "then"   -> << If(BoolL(TRUE), body, <<>>) >>
      [] w = "else"   -> << If(BoolL(FALSE), <<Filler>>, body) >>
      \* (the arm ends with the filler so that both arms have the same - unit - type also when the match itself sits in value position,
      \*  e.g. as the last statement of an enclosing arm)
      [] w = "arm"    -> << Match(IntL(0), <<Arm(IntL(0), body \o <<Filler>>), Arm(Wild, <<Filler>>)>>) >>
      [] w = "harm"   -> << Handle(Expr(Call("ctx_raises", <<>>)), <<HArm("CtxErr", "ctx_err", body)>>) >>

RECURSIVE WrapAll(_, _, _)
WrapAll(ctx, j, body) == IF j > Len(ctx) THEN body ELSE Wrap(ctx[j], j, WrapAll(ctx, j + 1, body))

\* a wrapper that starts a new function scope: a probe that writes to its setup variables cannot have the setup hoisted
\* across it (assignment to a variable of an enclosing function is outside the documented core)
FunBoundary(ctx) == \E j \in 1..Len(ctx) : ctx[j] \in {"fun", "method"}

Plug(ctx, hoist, probe) ==
    Prog( CtxDecls(ctx) \o probe.decls \o
          (IF hoist THEN probe.setup \o WrapAll(ctx, 1, probe.stmts)
                    ELSE WrapAll(ctx, 1, probe.setup \o probe.stmts)) )

\* all contexts of depth <= d over the wrapper set W
\* a function or method wrapper is only used as the OUTERMOST wrapper: it declares a top-level function / class (a `def f` nested
\* in another block is not callable in today's checker, and nested definitions are not part of the documented core)
RECURSIVE AllCtxs(_, _)
AllCtxs(W, d) == IF d = 0 THEN {<<>>} ELSE AllCtxs(W, d - 1) \cup {Append(c, w) : c \in AllCtxs(W, d - 1), w \in W}
Ctxs(W, d) == {c \in AllCtxs(W, d) : \A j \in 2..Len(c) : c[j] \notin {"fun", "method"}}

CanHoist(ctx, probe) == Len(ctx) > 0 /\ Len(probe.setup) > 0 /\ ~(probe.writes /\ FunBoundary(ctx))
=====================================================================================
