---------------------------------- MODULE MC_PyExpr ----------------------------------
(* C10, roles R1 + R2: the bounded families of Core expression trees; TLC checks RoundTrip on every     *)
(* member (R1) and prints it as a case for the harness (R2).                                            *)
EXTENDS PyExpr, Json

CONSTANT Family     \* "depth3" : all trees of depth <= 3 over one representative operator per precedence class
                    \* "pairs"  : every (parent, child, side) over the COMPLETE operator set

A == Id("a")
B == Id("b")
RepBin == {"or", "and", "<", "is not", "|", "^", "&", "<<", "+", "-", "*", "%", "**"}
RepUn  == {"not", "-"}

\* one more level of every constructor over the operand set S
Grow(S, bins, uns) ==
       {Bin(op, l, r) : op \in bins, l \in S, r \in S}
  \cup {Un(op, e) : op \in uns, e \in S}
  \cup {Tern(c, t, e) : c \in S, t \in S, e \in S}
  \cup {Lam(<<>>, b) : b \in S} \cup {Lam(<<"x", "y">>, b) : b \in {A}}
  \cup {Call(f, <<x>>) : f \in S, x \in S}
  \cup {Attr(o, "n") : o \in S}
  \cup {MCall(o, "m", <<x>>) : o \in S, x \in S}
  \cup {Index(o, i) : o \in S, i \in S}
  \cup {IsA(l, r) : l \in S, r \in S}
  \cup {Sqrt(e) : e \in S}
  \cup {Tup(<<x, y>>) : x \in S, y \in S} \cup {Tup(<<x>>) : x \in S}
  \cup {List(<<x>>) : x \in S}

D1 == {A}
D2 == D1 \cup Grow(D1, RepBin, RepUn) \cup {ENum("2", "3"), IntL("1")}
D3 == D2 \cup Grow(D2, RepBin, RepUn)

Full2 == {A} \cup Grow({A}, AllBinOps, AllUnOps) \cup {ENum("2", "3"), IntL("1")}
Pairs ==   {Bin(op, c, B) : op \in AllBinOps, c \in Full2} \cup {Bin(op, B, c) : op \in AllBinOps, c \in Full2}
      \cup {Un(op, c) : op \in AllUnOps, c \in Full2}
      \cup {Tern(c, B, B) : c \in Full2} \cup {Tern(B, c, B) : c \in Full2} \cup {Tern(B, B, c) : c \in Full2}
      \cup {Lam(<<"x">>, c) : c \in Full2}
      \cup {Call(c, <<B>>) : c \in Full2} \cup {Call(B, <<c, B>>) : c \in Full2}
      \cup {Attr(c, "n") : c \in Full2} \cup {MCall(c, "m", <<B>>) : c \in Full2} \cup {MCall(B, "m", <<c>>) : c \in Full2}
      \cup {Index(c, B) : c \in Full2} \cup {Index(B, c) : c \in Full2}
      \cup {IsA(c, B) : c \in Full2} \cup {IsA(B, c) : c \in Full2}
      \cup {Sqrt(c) : c \in Full2}
      \cup {Tup(<<c, B>>) : c \in Full2} \cup {List(<<B, c>>) : c \in Full2}
      \* desugared units as operands: range end `to + 1`, slice end `to - 1`, `isna` = not isinstance, `?` = or
      \cup {Bin("+", c, IntL("1")) : c \in Full2} \cup {Bin("-", c, IntL("1")) : c \in Full2}
      \cup {Un("not", IsA(c, B)) : c \in Full2} \cup {Bin("or", c, B) : c \in Full2}

\* end-to-end family: TYPED trees (Int- and Bool-valued) that exist as Mamba source; operators in the Python vocabulary
\* (the driver spells them in Mamba: % -> mod, ** -> ^, == -> =, ternary -> if/then/else) with every operand parenthesised
T == Id("t")
IntOps == {"+", "-", "*", "//", "%", "**"}
CmpOpsE == {"<", "<=", ">", ">=", "=="}
I1 == {A, IntL("1")}
B1 == {T}
I2 == I1 \cup {Bin(op, l, r) : op \in IntOps, l \in I1, r \in I1} \cup {Un("-", e) : e \in I1} \cup {Tern(T, l, r) : l \in I1, r \in I1}
B2 == B1 \cup {Bin(op, l, r) : op \in CmpOpsE, l \in I1, r \in I1} \cup {Bin(op, T, T) : op \in {"and", "or"}} \cup {Un("not", T)}
I3 == I2 \cup {Bin(op, l, r) : op \in {"+", "-", "*", "**", "//"}, l \in I2, r \in I2} \cup {Un("-", e) : e \in I2}
         \cup {Tern(c, l, r) : c \in B2, l \in I1, r \in I1} \cup {Tern(T, l, r) : l \in I2, r \in I1} \cup {Tern(T, l, r) : l \in I1, r \in I2}
B3 == B2 \cup {Bin(op, l, r) : op \in {"<", "=="}, l \in I2, r \in I2} \cup {Bin(op, l, r) : op \in {"and", "or"}, l \in B2, r \in B2} \cup {Un("not", e) : e \in B2}
         \cup {Bin("==", l, r) : l \in B2, r \in B2}          \* equality of truth values: `not`, `and`, `or` and comparisons as operands of a comparison
E2E == {[ty |-> "Int", e |-> e] : e \in I3} \cup {[ty |-> "Bool", e |-> e] : e \in B3}

Cases == CASE Family = "depth3" -> {[ty |-> "", e |-> e] : e \in D3} [] Family = "pairs" -> {[ty |-> "", e |-> e] : e \in Pairs} [] Family = "e2e" -> E2E

VARIABLE t
Init == t \in Cases
Next == UNCHANGED t
RoundTripInv == RoundTrip(t.e)
Emit == PrintT("@@" \o ToJson([fam |-> Family, tree |-> t.e, py |-> PyOf(t.e), toks |-> Pr(t.e), ty |-> t.ty]))
=====================================================================================
