------------------------------------- MODULE MC_Forms -------------------------------------
(* Forms of the language that the abstract syntax of MambaSyntax does not have (found missing by bin/coverage: node kinds of the         *)
(* parser that no TLC-enumerated family produced): bitwise operators and shifts, unary plus, `is`, `isa`, set / dictionary literals and   *)
(* builders, E-notation, sqrt, doc strings, type aliases, interfaces, generic classes, slices.  A form is a program given as lines of     *)
(* TEXT together with the lines it must print; the expected lines are computed here, by TLA+ operators (Bitwise community module,         *)
(* arithmetic, the class hierarchy), not copied from a run.  out = <<"<any>">> : behaviour not compared (only C02 / C04 / C11 / C14 ...).  *)
EXTENDS Naturals, Integers, Sequences, TLC, Json, Bitwise

S(n) == ToString(n)
Pow2(n) == IF n = 0 THEN 1 ELSE IF n = 1 THEN 2 ELSE IF n = 2 THEN 4 ELSE 8
B(x) == IF x THEN "True" ELSE "False"
Pairs == {<<12, 10>>, <<7, 2>>, <<0, 5>>, <<255, 16>>}

Bitwise2(a, b) ==
    [name |-> "bitwise",
     src |-> <<"def a: Int := " \o S(a), "def b: Int := " \o S(b),
               "def r1: Int := a _and_ b", "print(r1)", "def r2: Int := a _or_ b", "print(r2)", "def r3: Int := a _xor_ b", "print(r3)",
               "def r4: Int := a << 2", "print(r4)", "def r5: Int := a >> 1", "print(r5)", "def r6: Int := _not_ a", "print(r6)",
               "def r7: Int := +a", "print(r7)", "def r8: Int := (a _and_ b) _or_ (a >> 2)", "print(r8)", "def r9: Int := a _and_ (b _or_ 1)", "print(r9)">>,
     out |-> <<S(a & b), S(a | b), S(a ^^ b), S(a * 4), S(shiftR(a, 1)), S(0 - a - 1), S(a), S((a & b) | shiftR(a, 2)), S(a & (b | 1))>>]

\* classes A <- B <- C, D unrelated; x holds an instance of class `dyn` in a variable of static type A
Anc == [A |-> {"A"}, B |-> {"A", "B"}, C |-> {"A", "B", "C"}]
Identity(dyn, test) ==
    [name |-> "is-isa",
     src |-> <<"class A", "    def v: Int := 1", "class B: A", "class C: B", "class D",
               "def x: A := " \o dyn \o "()", "def y: A := x", "def z: A := " \o dyn \o "()",
               "def p1: Bool := x is y", "print(p1)", "def p2: Bool := x is z", "print(p2)",
               "def p3: Bool := x isa " \o test, "print(p3)", "def p4: Bool := not (x isa " \o test \o ")", "print(p4)">>,
     out |-> <<B(TRUE), B(FALSE), B(test \in Anc[dyn]), B(test \notin Anc[dyn])>>]

Collections ==
    { [name |-> "set-literal",  src |-> <<"def s: Set[Int] := {3, 1, 2, 3}", "print(s)", "def e: Set[Int] := {x | x in [3, 1, 1, 2]}", "print(e)",
                                          "def f: Set[Int] := {x * x | x in 0 ..= 2, x > 0}", "print(f)">>,
                                out |-> <<"{1, 2, 3}", "{1, 2, 3}", "{1, 4}">>],
      [name |-> "dictionary",   src |-> <<"def d: Dict[Int, Str] := {1 => \"a\", 2 => \"b\"}", "print(d[2])", "print(d[1])",
                                          "def g := {x => x * 2 | x in [1, 2, 3]}", "print(d[1] + d[2])">>,
                                out |-> <<"b", "a", "ab">>],
      [name |-> "e-notation",   src |-> <<"def o: Int := 6E2", "print(o)", "def q: Int := o // 2E1", "print(q)", "def r: Int := 1E1 ^ 2", "print(r)", "def t: Int := 3 * 2E0", "print(t)">>,
                                out |-> <<"600", "30", "100", "6">>],
      [name |-> "sqrt",         src |-> <<"def r: Float := sqrt 16.0", "print(r)", "def u: Float := sqrt 4.0", "print(u)">>, out |-> <<"4.0", "2.0">>],
      [name |-> "doc-strings",  src |-> <<"def f(x: Int) -> Int =>", "    \"\"\"doubles x\"\"\"", "    x * 2", "class K", "    \"\"\"a class", "    over two lines\"\"\"", "    def v: Int := 3",
                                          "print(f(2))", "print(K().v)">>, out |-> <<"4", "3">>],
      [name |-> "type-alias",   src |-> <<"type MyInt: Int", "def a: MyInt := 5", "print(a)", "def f(x: MyInt) -> Int => x + 1", "print(f(a))">>, out |-> <<"<any>">>],       \* (rejected today, as the repository's own sample type_alias_primitive)
      [name |-> "interface",    src |-> <<"type Shape", "    def area(self) -> Int", "class Sq(def side: Int): Shape", "    def area(self) -> Int => self.side * self.side",
                                          "def s: Shape := Sq(3)", "print(s.area())">>, out |-> <<"9">>],
      [name |-> "interface-field", src |-> <<"type Named", "    def name: Str?", "    def age: Int?", "class Dog: Named", "    def label(self) -> Str => self.name ? \"unnamed\"",
                                             "    def years(self) -> Int => self.age ? 3", "print(Dog().label())", "print(Dog().years())">>, out |-> <<"unnamed", "3">>],
      [name |-> "generic-class", src |-> <<"class Box[T](def item: T)", "    def get(self) -> T => self.item", "def b := Box(3)", "def v: Int := b.get()", "print(v + 1)">>, out |-> <<"<any>">>],      \* (a generic class cannot be constructed today)
      [name |-> "slices",       src |-> <<"def l := [10, 20, 30, 40, 50]", "def m: List[Int] := l[1 :: 3]", "print(m)", "def n: List[Int] := l[1 ::= 3]", "print(n)",
                                          "for e in l[0 ::= 4 :: 2] do print(e + 1)">>, out |-> <<"<any>">>],
      [name |-> "slice-is-a-list", src |-> <<"def l := [10, 20, 30]", "def m := l[0 ::= 2]", "def k: Int := m[0]", "print(k)">>, out |-> <<"10">>],
      [name |-> "refinement",   src |-> <<"class Acc(def n: Int)", "type Big: Acc when self.n > 10", "def a := Acc(20)", "print(a.n)">>, out |-> <<"<any>">>],
      [name |-> "with",         src |-> <<"class Res", "    def v: Int := 1", "    def __enter__(self) -> Any => self", "    def __exit__(self, a: Any, b: Any, c: Any) => print(\"closed\")",
                                          "def r := Res()", "with r as q: Res do", "    print(q.v)", "print(\"after\")">>, out |-> <<"1", "closed", "after">>],
      \* a resource WITHOUT the protocol: accepted today, TypeError at run time (KF-C04-5)
      [name |-> "with-no-protocol", src |-> <<"class Res", "    def v: Int := 1", "def r := Res()", "with r as q: Res do", "    print(q.v)">>, out |-> <<"<any>">>] }

Cases == {Bitwise2(p[1], p[2]) : p \in Pairs} \cup {Identity(d, t) : d \in {"A", "B", "C"}, t \in {"A", "B", "C"}} \cup Collections
VARIABLE c
Init == c \in Cases
Next == UNCHANGED c
Emit == PrintT("@@" \o ToJson(c))
=====================================================================================
