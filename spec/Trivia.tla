-------------------------------------- MODULE Trivia --------------------------------------
(* C14: layout trivia never changes meaning.  Edits(n) is the set of single trivia edits applicable to a text   *)
(* of n lines; an edit is [k |-> kind, at |-> line] (at = 0 for whole-file edits):                               *)
(*   trailing-comment (after line at), comment-line-as-prev / comment-line-as-next (a whole-line comment         *)
(*   inserted after line at, indented like the line before / after it), blank-line, spaces-line (inserted after  *)
(*   line at; at = 0: before the first line), trailing-spaces (after line at), final-newline (toggle), crlf.     *)
(* Apply(lines, e) is the edit on a sequence of lines (text without line terminators); the harness joins.        *)
(* The property: verdict and emitted Python of Apply(lines, e) equal those of lines.                             *)
EXTENDS Naturals, Sequences, TLC, Json

CONSTANT MaxLines
Kinds == {"trailing-comment", "comment-line-as-prev", "comment-line-as-next", "blank-line", "spaces-line", "trailing-spaces"}
Edits(n) == {[k |-> k, at |-> i] : k \in Kinds, i \in 1..n}
            \cup {[k |-> k, at |-> 0] : k \in {"blank-line", "comment-line-as-next", "final-newline", "crlf"}}

\* leading spaces of a line are not inspectable in TLC (no string indexing): the model works on [ind, text] pairs
Line(ind, text) == [ind |-> ind, text |-> text]
InsertAfter(ls, i, l) == SubSeq(ls, 1, i) \o <<l>> \o SubSeq(ls, i + 1, Len(ls))
Apply(ls, e) ==
    CASE e.k = "trailing-comment"     -> [ls EXCEPT ![e.at].text = @ \o "  # c"]
      [] e.k = "trailing-spaces"      -> [ls EXCEPT ![e.at].text = @ \o "   "]
      [] e.k = "comment-line-as-prev" -> InsertAfter(ls, e.at, Line(ls[e.at].ind, "# c"))
      [] e.k = "comment-line-as-next" -> InsertAfter(ls, e.at, Line(IF e.at < Len(ls) THEN ls[e.at + 1].ind ELSE 0, "# c"))
      [] e.k = "blank-line"           -> InsertAfter(ls, e.at, Line(0, ""))
      [] e.k = "spaces-line"          -> InsertAfter(ls, e.at, Line(ls[e.at].ind, ""))
      [] OTHER                        -> ls

VARIABLE n
Init == n \in 1..MaxLines
Next == UNCHANGED n
Emit == PrintT("@@" \o ToJson([n |-> n, edits |-> Edits(n)]))
=====================================================================================
