----------------------------------- MODULE MC_C08 -----------------------------------
(* C08 explicit error handling.  User exception hierarchy (depth 3 plus a sibling and a non-exception):   *)
(*      E1: Exception;  E1a: E1;  E1b: E1a;  E2: Exception;  NotExc (a plain class)                        *)
(* Grid: raised class R x how it is raised (call to a function declaring raise [R], `raise R()`, call to  *)
(* a method declaring raise [R]) x set D declared by the enclosing function x set H of handle arms        *)
(* around the raising expression x position of the raising expression in the body (statement,             *)
(* initialiser, under every inner context nesting, inside a handle arm, after a handle).                  *)
(* Expected (MambaStatic.RaisesOK): accepted iff some handled or declared class is R or an ancestor of R; *)
(* only subclasses of Exception may be declared.                                                          *)
EXTENDS MambaStatic, Json

CONSTANTS Depth, Part     \* Part: "raise" | "position" | "declare" | "multi"

Excs == {"E1", "E1a", "E1b", "E2"}
ExcDecls == << Class("E1", <<>>, <<Parent("Exception", <<>>)>>, <<>>, <<>>), Class("E1a", <<>>, <<Parent("E1", <<>>)>>, <<>>, <<>>),
               Class("E1b", <<>>, <<Parent("E1a", <<>>)>>, <<>>, <<>>), Class("E2", <<>>, <<Parent("Exception", <<>>)>>, <<>>, <<>>),
               Class("NotExc", <<>>, <<>>, <<>>, <<>>),
               Fun("rE1", <<>>, "Int", <<"E1">>, <<Raise("E1", <<>>)>>), Fun("rE1a", <<>>, "Int", <<"E1a">>, <<Raise("E1a", <<>>)>>),
               Fun("rE1b", <<>>, "Int", <<"E1b">>, <<Raise("E1b", <<>>)>>), Fun("rE2", <<>>, "Int", <<"E2">>, <<Raise("E2", <<>>)>>),
               Class("Thrower", <<>>, <<>>, <<>>,
                     << Method("mE1", TRUE, <<>>, "Int", <<"E1">>, <<Raise("E1", <<>>)>>), Method("mE1a", TRUE, <<>>, "Int", <<"E1a">>, <<Raise("E1a", <<>>)>>),
                        Method("mE1b", TRUE, <<>>, "Int", <<"E1b">>, <<Raise("E1b", <<>>)>>), Method("mE2", TRUE, <<>>, "Int", <<"E2">>, <<Raise("E2", <<>>)>>) >>) >>

SetToSeqSorted(S) == LET order == <<"E1", "E1a", "E1b", "E2", "Exception", "NotExc">>
                     IN SelectSeq(order, LAMBDA x : x \in S)
Arms(H) == [j \in 1..Len(SetToSeqSorted(H)) |-> HArm(SetToSeqSorted(H)[j], "err", <<Expr(IntL(0))>>)]

\* the raising expression / statement
RaiseE(R, how) == IF how = "call" THEN Call("r" \o R, <<>>) ELSE MCall(New("Thrower", <<>>), "m" \o R, <<>>)
\* the raising statements at a position, guarded by handle arms H (H = {} : no handle)
RaiseStmts(R, how, H, pos) ==
    IF how = "raise" THEN <<Raise(R, <<>>)>>           \* a raise statement cannot be wrapped in a handle
    ELSE LET e == RaiseE(R, how)
             s == IF pos = "init" THEN Def("a", TRUE, "", e) ELSE Expr(e) IN
         IF H = {} THEN <<s>> ELSE <<Handle(s, Arms(H))>>

Probe(kind, caller, ok, note) ==
    [kind |-> kind, decls |-> ExcDecls \o <<caller>>, setup |-> <<>>, stmts |-> <<PrintS(StrL("x"))>>, writes |-> FALSE,
     expect |-> Verdict(ok), note |-> note]
Caller(meth, D, body) ==
    IF meth THEN Class("Caller", <<>>, <<>>, <<>>, <<Method("c", TRUE, <<>>, "Int", SetToSeqSorted(D), body)>>)
    ELSE Fun("c", <<>>, "Int", SetToSeqSorted(D), body)

Hs == {{}, {"E1"}, {"E1a"}, {"E2"}, {"E1b", "E2"}, {"Exception"}}
Ds == {{}, {"E1"}, {"E1a"}, {"E2"}, {"E1", "E2"}, {"Exception"}}

\* all (R, how, D, H) with the raising statement directly in the body
RaiseProbes ==
    { Probe("raises", Caller(meth, D, RaiseStmts(R, how, H, pos) \o <<Expr(IntL(0))>>), RaisesOK(R, D, IF how = "raise" THEN {} ELSE H),
            [raised |-> R, how |-> how, declared |-> D, handled |-> IF how = "raise" THEN {} ELSE H, position |-> pos, method |-> meth])
      : R \in Excs, how \in {"call", "raise", "mcall"}, D \in Ds, H \in Hs, pos \in {"stmt", "init"}, meth \in BOOLEAN }

\* positions: the raising statement under inner contexts, inside a handle arm of an enclosing handle, after a handle
InnerCtxs == Ctxs({"for", "while", "then", "else", "arm"}, Depth)
PosParams == { q \in {"E1", "E1a"} \X {{}, {"E1"}} \X {{}, {"E1"}, {"E2"}} \X InnerCtxs :
               \* (a handle whose arms yield an Int next to a print arm makes the arms of an enclosing match differ in type)
               q[3] = {} \/ \A j \in 1..Len(q[4]) : q[4][j] # "arm" }
PositionProbes ==
    { Probe("raises-nested", Caller(FALSE, q[2], WrapAll(q[4], 1, RaiseStmts(q[1], "call", q[3], "stmt")) \o <<Expr(IntL(0))>>), RaisesOK(q[1], q[2], q[3]),
            [raised |-> q[1], how |-> "call", declared |-> q[2], handled |-> q[3], position |-> q[4], method |-> FALSE])
      : q \in PosParams }
  \cup  \* a raising call after a handle of the same class: the handle does not cover it
    { Probe("raises-after-handle", Caller(FALSE, D, <<Handle(Expr(Call("rE1", <<>>)), Arms({"E1"}))>> \o RaiseStmts(R, "call", {}, pos) \o <<Expr(IntL(0))>>),
            RaisesOK(R, D, {}), [raised |-> R, how |-> "call", declared |-> D, handled |-> {}, position |-> "after-handle", method |-> FALSE])
      : R \in {"E1", "E1a", "E2"}, D \in {{}, {"E1"}}, pos \in {"stmt", "init"} }
  \cup  \* a raising call inside the arm of a handle: the arm is not covered by its own handle
    { Probe("raises-in-arm", Caller(FALSE, D, <<Handle(Def("a", TRUE, "", Call("rE1", <<>>)), <<HArm("E1", "err", RaiseStmts(R, "call", H, "stmt") \o <<Expr(IntL(0))>>)>>), Expr(Var("a"))>>),
            RaisesOK(R, D, H), [raised |-> R, how |-> "call", declared |-> D, handled |-> H, position |-> "in-arm", method |-> FALSE])
      : R \in {"E1", "E1a", "E2"}, D \in {{}, {"E1"}}, H \in {{}, {"E1"}} }

\* callees that declare SEVERAL exceptions (in every order): a caller has to cover each of them, whatever its place in the list;
\* the callee is a function or a method, the caller declares D and handles H
MultiSeq == << <<"E1", "E2">>, <<"E2", "E1">>, <<"E1a", "E2">>, <<"E2", "E1a">>, <<"E1b", "E1">>, <<"E1", "E1b">>, <<"E2", "E1b", "E1">>, <<"E1", "E2", "E1a">> >>
MultiLists == {MultiSeq[j] : j \in 1..Len(MultiSeq)}
MultiName(RS) == LET F[j \in 0..Len(RS)] == IF j = 0 THEN "" ELSE F[j - 1] \o "_" \o RS[j] IN F[Len(RS)]
MultiBody(RS) == [j \in 1..Len(RS) |-> If(Bin("=", Var("x"), IntL(j)), <<Raise(RS[j], <<>>)>>, <<>>)] \o <<Expr(Var("x"))>>
MultiDecls == [j \in 1..Len(MultiSeq) |->
                 LET RS == MultiSeq[j] IN
                 Fun("r" \o MultiName(RS), <<Param("x", "Int", Absent)>>, "Int", RS, MultiBody(RS))]
MultiThrower == Class("MultiThrower", <<>>, <<>>, <<>>,
                      [j \in 1..Len(MultiDecls) |-> Method("m" \o MultiDecls[j].n, TRUE, MultiDecls[j].ps, "Int", MultiDecls[j].raises, MultiDecls[j].b)])
MultiProbes ==
    { [kind |-> "raises-multi", decls |-> ExcDecls \o MultiDecls \o <<MultiThrower>>
                 \o <<Caller(FALSE, D, (LET e == IF how = "call" THEN Call("r" \o MultiName(RS), <<IntL(0)>>) ELSE MCall(New("MultiThrower", <<>>), "mr" \o MultiName(RS), <<IntL(0)>>)
                                              s == IF pos = "init" THEN Def("a", TRUE, "", e) ELSE Expr(e) IN
                                          IF H = {} THEN <<s>> ELSE <<Handle(s, Arms(H))>>) \o <<Expr(IntL(0))>>)>>,
       setup |-> <<>>, stmts |-> <<PrintS(StrL("x"))>>, writes |-> FALSE,
       expect |-> Verdict(RaisesAllOK(RS, D, H)), note |-> [raised_all |-> RS, how |-> how, declared |-> D, handled |-> H, position |-> pos, method |-> FALSE]]
      : RS \in MultiLists, how \in {"call", "mcall"}, D \in Ds, H \in Hs, pos \in {"stmt", "init"} }

\* only subclasses of Exception may be declared
DeclareProbes ==
    { Probe("raises-declare", Caller(meth, {d}, <<Expr(IntL(0))>>), DeclarableOK(d), [declared_class |-> d, method |-> meth])
      : d \in {"E1", "E1b", "Exception", "NotExc"}, meth \in BOOLEAN }

\* lists: every declared class has to be an exception, whatever its place in the list
DeclLists == { <<"E1", "NotExc">>, <<"NotExc", "E1">>, <<"E1", "E2", "NotExc">>, <<"E1", "NotExc", "E2">>, <<"E1", "E2">>, <<"E2", "E1b", "Exception">>, <<"NotExc", "NotExc">> }
DeclareListProbes ==
    { Probe("raises-declare-list", IF meth THEN Class("Caller", <<>>, <<>>, <<>>, <<Method("c", TRUE, <<>>, "Int", ds, <<Expr(IntL(0))>>)>>) ELSE Fun("c", <<>>, "Int", ds, <<Expr(IntL(0))>>),
            \A j \in 1..Len(ds) : DeclarableOK(ds[j]), [declared_list |-> ds, method |-> meth])
      : ds \in DeclLists, meth \in BOOLEAN }
Probes == CASE Part = "raise" -> RaiseProbes [] Part = "position" -> PositionProbes [] Part = "declare" -> DeclareProbes \cup DeclareListProbes [] Part = "multi" -> MultiProbes

Cases == { [prop |-> "C08", kind |-> p.kind, ctx |-> <<>>, hoist |-> FALSE, expect |-> p.expect, note |-> p.note, prog |-> Plug(<<>>, FALSE, p)]
           : p \in Probes }
VARIABLE c
Init == c \in Cases
Next == UNCHANGED c
Emit == PrintT("@@" \o ToJson(c))
=====================================================================================
