----------------------------------- MODULE MC_C06 -----------------------------------
(* C06 null safety.  Grid: type T x position where a typed value is consumed x flow                       *)
(*   source  : the literal None | a variable of type T? | a value of type T | `n ? d` (made non-null)      *)
(*   target  : a slot of type T or of type T?                                                              *)
(* Expected verdict: MambaStatic.SubN(target, source) - None and T? never flow into T; T and None are     *)
(* accepted where T? is expected; `x ? d` is a T.                                                          *)
EXTENDS MambaStatic, Json

CONSTANTS Depth, Part       \* Part: "init" | "assign" | "field" | "arg" | "return" | "use"

NTys == {"Int", "Str", "Bool", "Float", "A"}
\* "call": the result of a function declared -> T?;  "call-via-var": that result first stored in a variable WITHOUT annotation (two steps:
\* the nullability has to survive type inference of the variable)
Sources == {"none", "nullable", "value", "defaulted", "call", "call-via-var"}
SrcType(T, s) == CASE s = "none" -> NoneT [] s \in {"nullable", "call", "call-via-var"} -> NT(T, TRUE) [] s = "value" -> NT(T, FALSE) [] s = "defaulted" -> NT(T, FALSE)
SrcE(T, s) == CASE s = "none" -> NoneL [] s = "nullable" -> VarOf(NT(T, TRUE)) [] s = "value" -> Lit(T)
                [] s = "defaulted" -> QDef(VarOf(NT(T, TRUE)), Lit(T))
                [] s = "call" -> Call("mk_" \o T, <<Lit(T)>>) [] s = "call-via-var" -> Var("w_" \o T)
SrcSetup(T, s) == IF s \in {"nullable", "defaulted"} THEN <<VarSetup(NT(T, TRUE))>>
                  ELSE IF s = "call-via-var" THEN <<Def("w_" \o T, TRUE, "", Call("mk_" \o T, <<Lit(T)>>))>> ELSE <<>>
MkOrder == <<"Int", "Str", "Bool", "Float", "A", "B", "D">>
\* (mk_T returns its parameter: a body that is textually equal to the body of another function with another return type
\*  would be conflated with it by today's checker - that is the separate probe "null-return-twin", KF-C06-2)
MkDecls == [j \in 1..Len(MkOrder) |-> Fun("mk_" \o MkOrder[j], <<Param("mkv", MkOrder[j], Absent)>>, MkOrder[j] \o "?", <<>>, <<Ret(Var("mkv"))>>)]

Probe(kind, decls, setup, stmts, writes, ok, note) ==
    [kind |-> kind, decls |-> ClassDecls \o MkDecls \o decls, setup |-> setup, stmts |-> stmts, writes |-> writes,
     expect |-> Verdict(ok), note |-> note]
\* the target slot has base type U: the source's own type T or a PROPER SUPERTYPE of it (Int -> Float, B -> A, D -> B, A): nullability
\* must be checked also when the classes differ
Supers == [Int |-> {"Float"}, Str |-> {}, Bool |-> {}, Float |-> {}, A |-> {}, B |-> {"A"}, D |-> {"B", "A"}]
NTysAll == NTys \cup {"B", "D"}
Note4(T, tq, s, U) == [T |-> T, target_nullable |-> tq, source |-> s, target |-> U]
OK4(T, tq, s, U) == SubN(NT(U, tq), SrcType(T, s))
Grid == {<<T, tq, s, T>> : T \in NTys, tq \in BOOLEAN, s \in Sources}
        \cup UNION {{<<T, tq, s, U>> : tq \in BOOLEAN, s \in Sources, U \in Supers[T]} : T \in {"Int", "B", "D"}}
Note(T, tq, s) == Note4(T, tq, s, T)
OK(T, tq, s) == OK4(T, tq, s, T)

InitProbes   == { Probe("null-init", <<>>, SrcSetup(g[1], g[3]), <<Def("r", TRUE, TyStr(NT(g[4], g[2])), SrcE(g[1], g[3]))>>, FALSE,
                        OK4(g[1], g[2], g[3], g[4]), Note4(g[1], g[2], g[3], g[4])) : g \in Grid }
AssignProbes == { Probe("null-assign", <<>>, SrcSetup(g[1], g[3]) \o <<Def("r", TRUE, TyStr(NT(g[4], g[2])), Lit(g[4]))>>,
                        <<Assign("r", SrcE(g[1], g[3]))>>, TRUE, OK4(g[1], g[2], g[3], g[4]), Note4(g[1], g[2], g[3], g[4])) : g \in Grid }
FieldProbes  == { Probe("null-field", <<Class("K", <<>>, <<>>, <<Def("fld", TRUE, TyStr(NT(g[4], g[2])), Lit(g[4]))>>, <<>>)>>,
                        SrcSetup(g[1], g[3]) \o <<Def("k", TRUE, "", New("K", <<>>))>>,
                        <<FAssign(Var("k"), "fld", SrcE(g[1], g[3]))>>, TRUE, OK4(g[1], g[2], g[3], g[4]), Note4(g[1], g[2], g[3], g[4])) : g \in Grid }
ArgProbes    == { Probe("null-arg", <<Fun("f", <<Param("p", TyStr(NT(g[4], g[2])), Absent)>>, "Int", <<>>, <<Expr(IntL(7))>>)>>,
                        SrcSetup(g[1], g[3]), <<Expr(Call("f", <<SrcE(g[1], g[3])>>))>>, FALSE, OK4(g[1], g[2], g[3], g[4]), Note4(g[1], g[2], g[3], g[4])) : g \in Grid }
             \cup { Probe("null-ctor-arg", <<Class("K", <<CArg("p", TRUE, TRUE, TyStr(NT(g[4], g[2])), Absent)>>, <<>>, <<>>, <<>>)>>,
                        SrcSetup(g[1], g[3]), <<Expr(New("K", <<SrcE(g[1], g[3])>>))>>, FALSE, OK4(g[1], g[2], g[3], g[4]), Note4(g[1], g[2], g[3], g[4])) : g \in Grid }
             \* the same for a parameter that HAS A DEFAULT (second position, the default is a value of the type), for a method, and for
             \* a class argument with a default: a default does not make the parameter nullable
             \cup { Probe("null-arg", <<Fun("f", <<Param("p0", "Int", Absent), Param("p", TyStr(NT(g[4], g[2])), Lit(g[4]))>>, "Int", <<>>, <<Expr(IntL(7))>>)>>,
                        SrcSetup(g[1], g[3]), <<Expr(Call("f", <<IntL(1), SrcE(g[1], g[3])>>))>>, FALSE, OK4(g[1], g[2], g[3], g[4]), Note4(g[1], g[2], g[3], g[4])) : g \in Grid }
             \cup { Probe("null-arg", <<Class("M", <<>>, <<>>, <<>>, <<Method("m", TRUE, <<Param("p", TyStr(NT(g[4], g[2])), IF wd THEN Lit(g[4]) ELSE Absent)>>, "Int", <<>>, <<Expr(IntL(7))>>)>>)>>,
                        SrcSetup(g[1], g[3]) \o <<Def("mrecv", TRUE, "", New("M", <<>>))>>, <<Expr(MCall(Var("mrecv"), "m", <<SrcE(g[1], g[3])>>))>>, FALSE, OK4(g[1], g[2], g[3], g[4]), Note4(g[1], g[2], g[3], g[4]))
                    : g \in Grid, wd \in BOOLEAN }
             \cup { Probe("null-ctor-arg", <<Class("K", <<CArg("p", TRUE, TRUE, TyStr(NT(g[4], g[2])), Lit(g[4]))>>, <<>>, <<>>, <<>>)>>,
                        SrcSetup(g[1], g[3]), <<Expr(New("K", <<SrcE(g[1], g[3])>>))>>, FALSE, OK4(g[1], g[2], g[3], g[4]), Note4(g[1], g[2], g[3], g[4])) : g \in Grid }
\* the source must be visible inside the function: parameters of type T? / T
ReturnProbes == { Probe("null-return", <<Fun("k", <<Param(VarName(NT(g[1], TRUE)), TyStr(NT(g[1], TRUE)), Absent)>>, TyStr(NT(g[4], g[2])), <<>>,
                                          (CASE shape = "explicit" -> <<Ret(SrcE(g[1], g[3]))>> [] shape = "implicit" -> <<Expr(SrcE(g[1], g[3]))>>
                                             \* the source as one arm of a conditional expression that is returned, directly and inside a guard
                                             [] shape = "conditional" -> <<Ret(IfE(BoolL(TRUE), SrcE(g[1], g[3]), Lit(g[4])))>>
                                             [] shape = "conditional-in-guard" -> <<If(BoolL(TRUE), <<Ret(IfE(BoolL(TRUE), SrcE(g[1], g[3]), Lit(g[4])))>>, <<>>), Ret(Lit(g[4]))>>
                                             [] shape = "in-guard" -> <<If(BoolL(TRUE), <<Ret(SrcE(g[1], g[3]))>>, <<>>), Ret(Lit(g[4]))>>))>>,
                        <<>>, <<PrintS(StrL("x"))>>, FALSE, OK4(g[1], g[2], g[3], g[4]), Note4(g[1], g[2], g[3], g[4]) @@ [shape |-> shape])
                  : g \in Grid, shape \in {"implicit", "explicit", "conditional", "conditional-in-guard", "in-guard"} }
\* two functions with textually equal bodies, one returning T?, the other T: both conform
TwinProbes == { Probe("null-return-twin", <<Fun("tw1", <<>>, T \o "?", <<>>, <<IF shape = "explicit" THEN Ret(Lit(T)) ELSE Expr(Lit(T))>>),
                                            Fun("tw2", <<>>, T, <<>>, <<IF shape = "explicit" THEN Ret(Lit(T)) ELSE Expr(Lit(T))>>)>>,
                      <<>>, <<PrintS(StrL("x"))>>, FALSE, TRUE, Note4(T, TRUE, "value", T) @@ [shape |-> shape])
                : T \in NTys, shape \in {"implicit", "explicit"} }
\* operand of an operator / receiver of a method / field read of T: only a non-null value may be used
UseE(T, e) == CASE T = "Int" -> Bin("+", e, IntL(1)) [] T = "Float" -> Bin("+", e, FloatL("1.5")) [] T = "Str" -> Bin("+", e, StrL("t"))
                [] T = "Bool" -> Bin("and", e, BoolL(TRUE)) [] T = "A" -> MCall(e, "m", <<>>)
UseDecls == <<Class("A", <<>>, <<>>, <<>>, <<Method("m", TRUE, <<>>, "Int", <<>>, <<Expr(IntL(7))>>)>>),
              Class("B", <<>>, <<Parent("A", <<>>)>>, <<>>, <<>>), Class("C", <<>>, <<>>, <<>>, <<>>), Class("D", <<>>, <<Parent("B", <<>>)>>, <<>>, <<>>)>>
UseProbes    == { [ Probe("null-use", <<>>, SrcSetup(T, s), <<Expr(UseE(T, SrcE(T, s)))>>, FALSE, s \in {"value", "defaulted"}, Note(T, FALSE, s))
                    EXCEPT !.decls = UseDecls \o MkDecls ]
                  : T \in NTys, s \in {"nullable", "value", "defaulted", "call", "call-via-var"} }

Probes == CASE Part = "init" -> InitProbes [] Part = "assign" -> AssignProbes [] Part = "field" -> FieldProbes
            [] Part = "arg" -> ArgProbes [] Part = "return" -> ReturnProbes \cup TwinProbes [] Part = "use" -> UseProbes
InDecl(p) == p.kind \in {"null-return", "null-return-twin"}

Cases == { [prop |-> "C06", kind |-> p.kind, ctx |-> ctx, hoist |-> h, expect |-> p.expect, note |-> p.note, prog |-> Plug(ctx, h, p)]
           : p \in Probes, ctx \in Ctxs(Wrappers, Depth), h \in BOOLEAN }
VARIABLE c
Init == c \in { x \in Cases : /\ (x.hoist => Len(x.ctx) > 0 /\ x.kind # "null-return"
                                             /\ ~(x.kind \in {"null-assign", "null-field"} /\ FunBoundary(x.ctx))
                                             /\ (x.note.source \in {"nullable", "defaulted", "call-via-var"} \/ x.kind \in {"null-assign", "null-field"}))
                              /\ (x.kind \in {"null-return", "null-return-twin"} => x.ctx = <<>> /\ ~x.hoist) }
Next == UNCHANGED c
Emit == PrintT("@@" \o ToJson(c))
=====================================================================================
