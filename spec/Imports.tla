-------------------------------------- MODULE Imports --------------------------------------
(* C16 (faithful layer): the generator's import accumulator (generate/convert/state.rs Imports) as a state       *)
(* machine.  State: `plain` - sequence of modules imported with `import m` in first-registration order;           *)
(* `from` - function module -> sorted sequence of names.  Actions: AddImport(m), AddFrom(m, n).                     *)
(* Render = plain imports, then from-imports in module order.                                                      *)
(* Invariants: no duplicates; names of a from-import sorted; an import is present iff it was registered.            *)
(* R1: all operation sequences up to length L over the support imports; R2: each sequence is emitted; R3: the      *)
(* sequence is replayed on the REAL Imports object and the rendered import lines are compared after each step.      *)
EXTENDS Naturals, Sequences, FiniteSets, TLC, Json, SequencesExt

CONSTANT L
Ops == { [op |-> "import", m |-> "math", n |-> ""] , [op |-> "import", m |-> "typing", n |-> ""] }
       \cup { [op |-> "from", m |-> "typing", n |-> n] : n \in {"Optional", "Union", "Tuple", "Callable", "Any"} }
       \cup { [op |-> "from", m |-> "abc", n |-> n] : n \in {"ABC", "abstractmethod"} }
Modules == {"typing", "abc"}
ModOrder == <<"abc", "typing">>          \* BTreeMap order

VARIABLES plain, from, hist
Init == plain = <<>> /\ from = [m \in Modules |-> <<>>] /\ hist = <<>>

\* strings cannot be compared with < in TLC: the order of the support names is given explicitly
NameOrder == <<"ABC", "Any", "Callable", "Optional", "Tuple", "Union", "abstractmethod">>
Pos(x) == CHOOSE j \in 1..Len(NameOrder) : NameOrder[j] = x
Sorted(S) == SelectSeq(NameOrder, LAMBDA x : x \in S)

AddImport(m) == /\ plain' = IF \E j \in 1..Len(plain) : plain[j] = m THEN plain ELSE Append(plain, m)
                /\ UNCHANGED from
AddFrom(m, n) == /\ from' = [from EXCEPT ![m] = Sorted({@[j] : j \in 1..Len(@)} \cup {n})]
                 /\ UNCHANGED plain
Do(o) == /\ Len(hist) < L
         /\ IF o.op = "import" THEN AddImport(o.m) ELSE AddFrom(o.m, o.n)
         /\ hist' = Append(hist, o)
Next == \E o \in Ops : Do(o)

\* the import lines in rendering order
RenderLines == [j \in 1..Len(plain) |-> [module |-> "", names |-> <<plain[j]>>]]
               \o SelectSeq([j \in 1..Len(ModOrder) |-> [module |-> ModOrder[j], names |-> from[ModOrder[j]]]], LAMBDA l : Len(l.names) > 0)

Registered(o) == \E j \in 1..Len(hist) : hist[j] = o
NoDuplicates == /\ \A a, b \in 1..Len(plain) : a # b => plain[a] # plain[b]
                /\ \A m \in Modules : \A a, b \in 1..Len(from[m]) : a # b => from[m][a] # from[m][b]
SortedNames == \A m \in Modules : \A a, b \in 1..Len(from[m]) : a < b => Pos(from[m][a]) < Pos(from[m][b])
PresentIffRegistered == \A o \in Ops : Registered(o) <=> (IF o.op = "import" THEN \E j \in 1..Len(plain) : plain[j] = o.m
                                                           ELSE \E j \in 1..Len(from[o.m]) : from[o.m][j] = o.n)
Emit == PrintT("@@" \o ToJson([ops |-> hist, lines |-> RenderLines]))
=====================================================================================
