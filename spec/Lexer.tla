-------------------------------------- MODULE Lexer --------------------------------------
(* C18 / C14, role R1: the faithful (implementation-shaped) model of the lexer: src/parse/lex/{mod,state,      *)
(* tokenize,token}.rs and pass/docstring.rs, transcribed with the same state variables and the same arithmetic. *)
(*                                                                                                               *)
(* The lexer is sequential and deterministic, so its machine is written as a step FUNCTION over an explicit      *)
(* state record (one Step = one iteration of the main loop of `tokenize`, which consumes >= 1 character and calls *)
(* State::token / space / newline); Lex(src) iterates Step to the end, flushes the indents, appends Eof and runs  *)
(* the doc-string pass.  Writing it as a function lets the model lex the expressions interpolated into a string    *)
(* recursively, as the code does (tokenize_direct), and lets the Canonical property re-lex a spelling.             *)
(*                                                                                                               *)
(* State (st): i - index of the next character; line, col - the caret (`State.pos`); cur - cur_indent; lineInd -   *)
(* line_indent; tokLine - token_this_line; nls - the buffered newline tokens; out - tokens so far; err.            *)
(* A token is [k, lx (spelling in the source, a sequence of characters), sl, sc, el, ec, b, x] where b / x are the  *)
(* source indices of its first character and of the character behind it (0 for structural tokens).                 *)
(*                                                                                                               *)
(* The PROPERTIES below are stated without the caret: TruePos counts line breaks in the source.                    *)
EXTENDS Naturals, Integers, Sequences, FiniteSets, TLC, LexWords

\* the character classes of tokenize(): 'a'..='z' | 'A'..='Z' | '_'  and  '0'..='9'
Letters == {"a", "b", "c", "d", "e", "f", "g", "h", "i", "j", "k", "l", "m", "n", "o", "p", "q", "r", "s", "t", "u", "v", "w", "x", "y", "z",
            "A", "B", "C", "D", "E", "F", "G", "H", "I", "J", "K", "L", "M", "N", "O", "P", "Q", "R", "S", "T", "U", "V", "W", "X", "Y", "Z", "_"}
Digits  == {"0", "1", "2", "3", "4", "5", "6", "7", "8", "9"}
Structural == {"NL", "Indent", "Dedent", "Eof"}

Tok(k, lx, sl, sc, el, ec, b, x) == [k |-> k, lx |-> lx, sl |-> sl, sc |-> sc, el |-> el, ec |-> ec, b |-> b, x |-> x]
\* CaretPos::offset_text
RECURSIVE OffL(_, _, _), OffC(_, _, _)
OffL(lx, j, l) == IF j > Len(lx) THEN l ELSE OffL(lx, j + 1, IF lx[j] = "\n" THEN l + 1 ELSE l)
OffC(lx, j, c) == IF j > Len(lx) THEN c ELSE OffC(lx, j + 1, IF lx[j] = "\n" THEN 1 ELSE c + 1)
\* Lex::new: strings may span lines, everything else advances the column by its width
Mk(k, lx, l, c, b) ==
    IF k \in {"Str", "DocStr"} THEN Tok(k, lx, l, c, OffL(lx, 1, l), OffC(lx, 1, c), b, b + Len(lx))
    ELSE IF k \in {"NL", "Dedent", "Eof"} THEN Tok(k, <<>>, l, c, l, c, 0, 0)
    ELSE IF k = "Indent" THEN Tok(k, <<>>, l, c, l, c + 4, 0, 0)
    ELSE Tok(k, lx, l, c, l, c + Len(lx), b, b + Len(lx))
Rep(t, n) == [j \in 1..n |-> t]

St0 == [i |-> 1, line |-> 1, col |-> 1, cur |-> 1, lineInd |-> 1, tokLine |-> FALSE, nls |-> <<>>, out |-> <<>>, err |-> FALSE]

\* State::token for a token of kind k with source spelling lx starting at source index b
Emit(st, k, lx, b) ==
    IF k = "Comment" /\ ~st.tokLine THEN
        \* a comment-only line is like a blank line: pending newlines first, then the comment; indentation untouched
        LET t == Mk(k, lx, st.line, st.col, b) IN
        [st EXCEPT !.out = st.out \o st.nls \o <<t>>, !.nls = <<>>, !.line = t.el, !.col = t.ec]
    ELSE
        LET popped == IF Len(st.nls) > 0 THEN <<st.nls[Len(st.nls)]>> ELSE <<>>
            rest   == IF Len(st.nls) > 0 THEN SubSeq(st.nls, 1, Len(st.nls) - 1) ELSE <<>>
            curL   == (st.cur - 1) \div 4
            lineL  == (st.lineInd - 1) \div 4
            dents  == IF lineL >= curL THEN Rep(Mk("Indent", <<>>, st.line, st.col, 0), lineL - curL)
                      ELSE Rep(Mk("Dedent", <<>>, st.line, st.col, 0), curL - lineL) \o <<Mk("NL", <<>>, st.line, st.col, 0)>>
            t      == Mk(k, lx, st.line, st.col, b) IN
        [st EXCEPT !.tokLine = TRUE, !.out = st.out \o popped \o dents \o rest \o <<t>>, !.nls = <<>>,
                   !.cur = st.lineInd, !.line = t.el, !.col = t.ec]

Ch(src, j) == IF j <= Len(src) THEN src[j] ELSE "<eof>"
Fail(st) == [st EXCEPT !.err = TRUE, !.i = 1000000]
Adv(st, n) == [st EXCEPT !.i = st.i + n]

\* maximal munch helpers: index behind the run of characters from S starting at j
RECURSIVE RunEnd(_, _, _)
RunEnd(src, j, S) == IF j <= Len(src) /\ src[j] \in S THEN RunEnd(src, j + 1, S) ELSE j
\* comment: up to (not including) \n or \r
RECURSIVE CommentEnd(_, _)
CommentEnd(src, j) == IF j <= Len(src) /\ src[j] \notin {"\n", "\r"} THEN CommentEnd(src, j + 1) ELSE j

\* number: digits [. digits] [E digits] with the look-ahead for '..' (the loop of tokenize(): a point is taken unless a second point
\* follows or a point / E was seen; E is taken once; the exponent may be empty)
NumberEnd(src, j) ==
    LET d == RunEnd(src, j, Digits)
        real == Ch(src, d) = "." /\ Ch(src, d + 1) # "."
        f == IF real THEN RunEnd(src, d + 1, Digits) ELSE d IN
    IF Ch(src, f) = "E" THEN [x |-> RunEnd(src, f + 1, Digits), k |-> "ENum"]
    ELSE [x |-> f, k |-> IF real THEN "Real" ELSE "Int"]

\* string body from j (just behind the opening quote), transcribed from the loop in tokenize.rs:
\*   bs - back_slash, depth - build_cur_expr (may become negative, as in the code), cur - cur_expr, exprs - the expression texts
\* result [x |-> index behind the closing quote, 0 when the string is not terminated; exprs]
RECURSIVE StrScan(_, _, _, _, _, _)
StrScan(src, j, bs, depth, cur, exprs) ==
    IF j > Len(src) THEN [x |-> 0, exprs |-> exprs]
    ELSE LET c == src[j] IN
         IF ~bs /\ depth = 0 /\ c = "\"" THEN [x |-> j + 1, exprs |-> exprs]
         ELSE IF bs THEN StrScan(src, j + 1, c = "\\", depth, cur, exprs)
         ELSE LET cur1 == IF depth > 0 THEN Append(cur, c) ELSE cur
                  depth1 == IF c = "{" THEN depth + 1 ELSE IF c = "}" THEN depth - 1 ELSE depth
                  closes == depth1 = 0 /\ Len(cur1) > 0
                  e == IF closes THEN SubSeq(cur1, 1, Len(cur1) - 1) ELSE <<>> IN
              StrScan(src, j + 1, c = "\\", depth1, IF closes THEN <<>> ELSE cur1, IF closes /\ Len(e) > 0 THEN Append(exprs, e) ELSE exprs)

RECURSIVE Run(_, _), Step(_, _), InnerOk(_, _, _)

\* do the interpolated expressions lex? (tokenize_direct on each; an error there is an error of the string)
InnerOk(src, exprs, j) ==
    IF j > Len(exprs) THEN TRUE
    ELSE ~Run(exprs[j], St0).err /\ InnerOk(src, exprs, j + 1)

\* one iteration of the main loop
Step(src, st) ==
    LET c == src[st.i] i == st.i IN
    CASE c = " "  -> [st EXCEPT !.i = i + 1, !.col = st.col + 1, !.lineInd = st.lineInd + (IF st.tokLine THEN 0 ELSE 1)]
      [] c = "\n" -> [st EXCEPT !.i = i + 1, !.nls = Append(st.nls, Mk("NL", <<>>, st.line, st.col, 0)), !.tokLine = FALSE,
                                !.lineInd = 1, !.line = st.line + 1, !.col = 1]
      [] c = "\r" -> IF Ch(src, i + 1) = "\n"
                     THEN [st EXCEPT !.i = i + 2, !.nls = Append(st.nls, Mk("NL", <<>>, st.line, st.col, 0)), !.tokLine = FALSE,
                                     !.lineInd = 1, !.line = st.line + 1, !.col = 1]
                     ELSE Fail(st)
      [] c = "#"  -> LET x == CommentEnd(src, i + 1) IN Adv(Emit(st, "Comment", SubSeq(src, i, x - 1), i), x - i)
      [] c \in Letters -> LET x == RunEnd(src, i, Letters \cup Digits)
                              w == SubSeq(src, i, x - 1) IN
                          IF w \in PyReserved THEN Fail(st)                  \* a reserved word of the target language
                          ELSE Adv(Emit(st, KwKind(w), w, i), x - i)          \* keyword table (as_op_or_id), otherwise Id
      [] c \in Digits  -> LET n == NumberEnd(src, i) IN Adv(Emit(st, n.k, SubSeq(src, i, n.x - 1), i), n.x - i)
      [] c = "."  -> IF Ch(src, i + 1) = "." THEN (IF Ch(src, i + 2) = "=" THEN Adv(Emit(st, "RangeIncl", <<".", ".", "=">>, i), 3)
                                                    ELSE Adv(Emit(st, "Range", <<".", ".">>, i), 2))
                     ELSE Adv(Emit(st, "Point", <<".">>, i), 1)
      [] c = "="  -> IF Ch(src, i + 1) = ">" THEN Adv(Emit(st, "BTo", <<"=", ">">>, i), 2) ELSE Adv(Emit(st, "Eq", <<"=">>, i), 1)
      [] c = "{"  -> Adv(Emit(st, "LCBrack", <<"{">>, i), 1)
      [] c = "}"  -> Adv(Emit(st, "RCBrack", <<"}">>, i), 1)
      [] c = "\\" -> Adv(Emit(st, "BSlash", <<"\\">>, i), 1)
      [] c = "\"" -> LET s == StrScan(src, i + 1, FALSE, 0, <<>>, <<>>) IN
                     IF s.x = 0 THEN Fail(st)                                   \* string is not terminated
                     ELSE IF ~InnerOk(src, s.exprs, 1) THEN Fail(st)
                     ELSE Adv(Emit(st, "Str", SubSeq(src, i, s.x - 1), i), s.x - i)
      [] OTHER -> Fail(st)

Run(src, st) == IF st.err \/ st.i > Len(src) THEN st ELSE Run(src, Step(src, st))

\* the doc-string pass: three adjacent string tokens, the outer two empty, become one DocStr token
RECURSIVE DocPass(_, _)
IsEmptyStr(t) == t.k = "Str" /\ Len(t.lx) = 2
DocPass(ts, j) ==
    IF j > Len(ts) THEN <<>>
    ELSE IF j + 2 <= Len(ts) /\ IsEmptyStr(ts[j]) /\ ts[j + 1].k = "Str" /\ IsEmptyStr(ts[j + 2])
            /\ ts[j].ec = ts[j + 1].sc /\ ts[j + 1].ec = ts[j + 2].sc
         THEN <<Tok("DocStr", ts[j].lx \o ts[j + 1].lx \o ts[j + 2].lx, ts[j].sl, ts[j].sc, ts[j + 2].el, ts[j + 2].ec, ts[j].b, ts[j + 2].x)>> \o DocPass(ts, j + 3)
         ELSE <<ts[j]>> \o DocPass(ts, j + 1)

\* tokenize: run, flush the indents, append Eof, doc-string pass.  Result [err, out].
Lex(src) ==
    LET st == Run(src, St0) IN
    IF st.err THEN [err |-> TRUE, out |-> <<>>]
    ELSE LET flushed == st.out \o Rep(Mk("Dedent", <<>>, st.line, st.col, 0), (st.cur - 1) \div 4)
             eof == IF Len(flushed) > 0 THEN Mk("Eof", <<>>, flushed[Len(flushed)].el, flushed[Len(flushed)].ec + 1, 0)
                    ELSE Mk("Eof", <<>>, 1, 1, 0) IN
         [err |-> FALSE, out |-> DocPass(Append(flushed, eof), 1)]

----------------------------------------------------------------------------------------
\* the abstract layer: properties stated on the source, without the caret
LineOf(src, j) == 1 + Cardinality({m \in 1..(j - 1) : m <= Len(src) /\ src[m] = "\n"})
ColOf(src, j)  == LET brk == {m \in 1..(j - 1) : m <= Len(src) /\ src[m] = "\n"} IN
                  IF brk = {} THEN j ELSE j - (CHOOSE m \in brk : \A y \in brk : y <= m)
Visible(t) == t.k \notin Structural
PosExact(src, out) == \A j \in 1..Len(out) : Visible(out[j]) =>
        /\ out[j].sl = LineOf(src, out[j].b) /\ out[j].sc = ColOf(src, out[j].b)
        /\ out[j].el = LineOf(src, out[j].x) /\ out[j].ec = ColOf(src, out[j].x)
        /\ SubSeq(src, out[j].b, out[j].x - 1) = out[j].lx
Ordered(out) == \A a, b \in 1..Len(out) : a < b /\ Visible(out[a]) /\ Visible(out[b]) => out[a].x <= out[b].b
Covered(src, out) == \A m \in 1..Len(src) : src[m] \notin {" ", "\n", "\r"} => \E j \in 1..Len(out) : Visible(out[j]) /\ out[j].b <= m /\ m < out[j].x
Count(out, j, k) == Cardinality({m \in 1..j : out[m].k = k})
Balanced(out) == /\ \A j \in 1..Len(out) : Count(out, j, "Dedent") <= Count(out, j, "Indent")
                 /\ Count(out, Len(out), "Dedent") = Count(out, Len(out), "Indent")
OneEof(out) == Len(out) > 0 /\ out[Len(out)].k = "Eof" /\ Count(out, Len(out), "Eof") = 1

\* canonical spelling (the same rule as the harness): spellings joined by single spaces, line structure rebuilt from NL /
\* Indent / Dedent; the NL directly behind a dedent belongs to the dedent
RECURSIVE Spell(_, _, _, _, _)
Spell(out, j, level, atStart, prevDedent) ==
    IF j > Len(out) THEN <<>>
    ELSE LET t == out[j] IN
         CASE t.k = "Indent" -> Spell(out, j + 1, level + 1, atStart, FALSE)
           [] t.k = "Dedent" -> Spell(out, j + 1, IF level > 0 THEN level - 1 ELSE 0, atStart, TRUE)
           [] t.k = "NL"     -> IF prevDedent THEN Spell(out, j + 1, level, atStart, FALSE) ELSE <<"\n">> \o Spell(out, j + 1, level, TRUE, FALSE)
           [] t.k = "Eof"    -> Spell(out, j + 1, level, atStart, FALSE)
           [] OTHER -> (IF atStart THEN Rep(" ", 4 * level) ELSE <<" ">>) \o t.lx \o Spell(out, j + 1, level, FALSE, FALSE)
Kinds(out) == [j \in 1..Len(out) |-> out[j].k]
Canonical(out) == LET again == Lex(Spell(out, 1, 0, TRUE, FALSE)) IN ~again.err /\ Kinds(again.out) = Kinds(out)

Good(src) == LET r == Lex(src) IN
             r.err \/ (PosExact(src, r.out) /\ Ordered(r.out) /\ Covered(src, r.out) /\ Balanced(r.out) /\ OneEof(r.out) /\ Canonical(r.out))
=====================================================================================
