INIT Init
NEXT Next
CONSTANT L = 4
INVARIANT NoDuplicates
INVARIANT SortedNames
INVARIANT PresentIffRegistered
INVARIANT Emit
CHECK_DEADLOCK FALSE
