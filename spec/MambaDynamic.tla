---------------------------------- MODULE MambaDynamic ----------------------------------
(* Reference semantics of the executable core language (C01, C04): a big-step evaluator with fuel,       *)
(* written as recursive operators over the abstract syntax of MambaSyntax.                               *)
(*                                                                                                        *)
(* Run(p) = [out |-> sequence of printed lines, status |-> "ok" | <class of the uncaught exception> |     *)
(*           "wrong:<what>" | "fuel" | "unsupported:<what>"]                                              *)
(* Values carry dynamic tags, so "going wrong" (an operation applied to a value of the wrong kind, a      *)
(* missing attribute, an unbound name) is observable in the model as status "wrong:..".                   *)
(* Documented meaning implemented here: integer operators (floor division and modulo as in the target     *)
(* language, power), comparisons, boolean connectives (short-circuit), string concatenation, if           *)
(* expression / statement, match with literal / binder / wildcard arms, while, for over exclusive and     *)
(* inclusive ranges with step and over lists, functions with defaults and implicit return of the last     *)
(* expression (when a return type is declared), classes: class arguments (def arguments become fields),   *)
(* class-body fields, parent constructors with arguments, explicit __init__, methods, field update;       *)
(* raise / handle with the class hierarchy.                                                               *)
EXTENDS MambaSyntax

IntV(n)  == [t |-> "int", v |-> n]
BoolV(b) == [t |-> "bool", v |-> b]
StrV(x)  == [t |-> "str", v |-> x]
FloatV(x)== [t |-> "float", v |-> x]
NoneV    == [t |-> "none"]
ObjV(r)  == [t |-> "obj", r |-> r]
ListV(x) == [t |-> "list", v |-> x]
TupV(x)  == [t |-> "tup", v |-> x]
FunV(f) == [t |-> "fun", f |-> f]        \* an anonymous function; f.env is the local environment it was created in

EmptyEnv == [x \in {} |-> NoneV]
Put(env, n, v) == [x \in DOMAIN env \cup {n} |-> IF x = n THEN v ELSE env[x]]

\* machine state
\*  g: global variables   l: local variables (inside a function)   inf: inside a function?
\*  fns: function table   cls: class table   h: heap (sequence of [c |-> class, f |-> fields])
\*  out: printed lines    fuel   st: "ok" | "ret" | "exc" | "wrong:.." | "fuel" | "unsupported:.."   v: current value
S0(fuel) == [g |-> EmptyEnv, l |-> EmptyEnv, inf |-> FALSE, fns |-> EmptyEnv, cls |-> EmptyEnv, h |-> <<>>, out |-> <<>>,
             fuel |-> fuel, st |-> "ok", v |-> NoneV, rty |-> FALSE]
Bad(s, why) == [s EXCEPT !.st = why]
Val(s, v)   == [s EXCEPT !.v = v]
Running(s)  == s.st = "ok"

Lookup(s, n) == IF s.inf /\ n \in DOMAIN s.l THEN s.l[n] ELSE s.g[n]
Bound(s, n)  == (s.inf /\ n \in DOMAIN s.l) \/ n \in DOMAIN s.g
Bind(s, n, v) == IF s.inf THEN [s EXCEPT !.l = Put(s.l, n, v)] ELSE [s EXCEPT !.g = Put(s.g, n, v)]

\* integer arithmetic of the target language
FloorDiv(a, b) == IF b > 0 THEN a \div b ELSE (0 - a) \div (0 - b)
PyMod(a, b)    == a - b * FloorDiv(a, b)
RECURSIVE Power(_, _)
Power(a, b) == IF b = 0 THEN 1 ELSE a * Power(a, b - 1)

\* printing
RECURSIVE Show(_), ShowSeq(_, _)
ShowIn(v) == IF v.t = "str" THEN "'" \o v.v \o "'" ELSE Show(v)       \* inside a collection strings are quoted
ShowSeq(vs, j) == IF j > Len(vs) THEN "" ELSE ShowIn(vs[j]) \o (IF j < Len(vs) THEN ", " ELSE "") \o ShowSeq(vs, j + 1)
Show(v) == CASE v.t = "int" -> ToString(v.v) [] v.t = "bool" -> (IF v.v THEN "True" ELSE "False") [] v.t = "str" -> v.v
             [] v.t = "float" -> v.v [] v.t = "none" -> "None" [] v.t = "list" -> "[" \o ShowSeq(v.v, 1) \o "]"
             [] v.t = "tup" -> "(" \o ShowSeq(v.v, 1) \o (IF Len(v.v) = 1 THEN "," ELSE "") \o ")"
             [] v.t = "obj" -> "<object>" [] v.t = "fun" -> "<function>"
Printable(v) == v.t \notin {"obj", "fun"} /\ (v.t \in {"list", "tup"} => \A j \in 1..Len(v.v) : v.v[j].t \in {"int", "bool", "str", "none"})

\* class table helpers
RECURSIVE ClsAnc(_, _)
ClsAnc(cls, c) == IF c \notin DOMAIN cls THEN {c}
                  ELSE {c} \cup UNION {ClsAnc(cls, cls[c].parents[j].c) : j \in 1..Len(cls[c].parents)}
RECURSIVE FindMethod(_, _, _), FindMethodIn(_, _, _, _)
\* method lookup: the class itself, then its parents left to right, depth first; result: the method record or Absent
FindMethodIn(cls, ps, j, m) == IF j > Len(ps) THEN Absent
                               ELSE LET r == FindMethod(cls, ps[j].c, m) IN IF r.k # "absent" THEN r ELSE FindMethodIn(cls, ps, j + 1, m)
FindMethod(cls, c, m) ==
    IF c \notin DOMAIN cls THEN Absent
    ELSE LET own == {j \in 1..Len(cls[c].methods) : cls[c].methods[j].n = m} IN
         IF own # {} THEN cls[c].methods[CHOOSE j \in own : TRUE] ELSE FindMethodIn(cls, cls[c].parents, 1, m)

RECURSIVE E(_, _), EArgs(_, _, _, _), X(_, _), XB(_, _, _), CallFun(_, _, _, _), BindParams(_, _, _, _, _), Construct(_, _, _, _),
          InitParents(_, _, _, _, _), InitFields(_, _, _, _, _), ForLoop(_, _, _, _, _), WhileLoop(_, _, _), MatchArms(_, _, _, _), HandleArms(_, _, _, _, _),
          LastValue(_, _), XBV(_, _, _), IterVals(_, _), Conds(_, _, _), BuildLoop(_, _, _, _, _)

\* evaluate a sequence of expressions left to right; result state has v = TupV(values)
EArgs(es, j, acc, s) ==
    IF j > Len(es) THEN Val(s, TupV(acc))
    ELSE LET r == E(es[j], s) IN IF ~Running(r) THEN r ELSE EArgs(es, j + 1, Append(acc, r.v), r)

\* TLC integers are 32 bit: results that could leave the range make the run "unsupported" (skipped), never a tool error
Abs(n) == IF n < 0 THEN 0 - n ELSE n
Big(n) == Abs(n) > 100000000
PowOK(a, b) == b <= 1 \/ Abs(a) <= 1 \/ (Abs(a) <= 2 /\ b <= 29) \/ (Abs(a) <= 10 /\ b <= 9) \/ (Abs(a) <= 60 /\ b <= 5) \/ (Abs(a) <= 1000 /\ b <= 3) \/ (Abs(a) <= 30000 /\ b <= 2)
BinOp(op, a, b, s) ==
    CASE op \in {"+", "-", "*", "//", "mod", "^", "<", "<=", ">", ">="} /\ a.t = "int" /\ b.t = "int" ->
           (CASE Big(a.v) \/ Big(b.v) -> Bad(s, "unsupported:big-number")
              [] op = "*" /\ (Abs(a.v) > 30000 \/ Abs(b.v) > 30000) -> Bad(s, "unsupported:big-number")
              [] op = "^" /\ b.v >= 0 /\ ~PowOK(a.v, b.v) -> Bad(s, "unsupported:big-number")
              [] op = "+" -> Val(s, IntV(a.v + b.v)) [] op = "-" -> Val(s, IntV(a.v - b.v)) [] op = "*" -> Val(s, IntV(a.v * b.v))
              [] op = "//" -> IF b.v = 0 THEN [s EXCEPT !.st = "exc", !.v = StrV("ZeroDivisionError")] ELSE Val(s, IntV(FloorDiv(a.v, b.v)))
              [] op = "mod" -> IF b.v = 0 THEN [s EXCEPT !.st = "exc", !.v = StrV("ZeroDivisionError")] ELSE Val(s, IntV(PyMod(a.v, b.v)))
              [] op = "^" -> IF b.v < 0 THEN Bad(s, "unsupported:negative-exponent") ELSE Val(s, IntV(Power(a.v, b.v)))
              [] op = "<" -> Val(s, BoolV(a.v < b.v)) [] op = "<=" -> Val(s, BoolV(a.v <= b.v))
              [] op = ">" -> Val(s, BoolV(a.v > b.v)) [] op = ">=" -> Val(s, BoolV(a.v >= b.v)))
      [] op = "+" /\ a.t = "str" /\ b.t = "str" -> Val(s, StrV(a.v \o b.v))
      [] op \in {"<", "<=", ">", ">="} /\ a.t = "str" /\ b.t = "str" -> Bad(s, "unsupported:string-order")
      [] op = "=" -> Val(s, BoolV(IF a.t # b.t THEN FALSE ELSE IF a.t = "none" THEN TRUE ELSE IF a.t = "obj" THEN a.r = b.r ELSE a.v = b.v))
      [] op = "!=" -> Val(s, BoolV(IF a.t # b.t THEN TRUE ELSE IF a.t = "none" THEN FALSE ELSE IF a.t = "obj" THEN a.r # b.r ELSE a.v # b.v))
      [] a.t = "float" \/ b.t = "float" -> Bad(s, "unsupported:float-arithmetic")
      [] OTHER -> Bad(s, "wrong:TypeError")

E(e, s) ==
    CASE e.k = "int"   -> Val(s, IntV(e.v))
      [] e.k = "float" -> Val(s, FloatV(e.s))
      [] e.k = "str"   -> Val(s, StrV(e.s))
      [] e.k = "bool"  -> Val(s, BoolV(e.b))
      [] e.k = "none"  -> Val(s, NoneV)
      [] e.k = "var"   -> IF Bound(s, e.n) THEN Val(s, Lookup(s, e.n)) ELSE Bad(s, "wrong:NameError")
      [] e.k = "bin" /\ e.op \in {"and", "or"} ->
            LET a == E(e.l, s) IN
            IF ~Running(a) THEN a
            ELSE IF a.v.t # "bool" THEN Bad(a, "wrong:TypeError")
            ELSE IF (e.op = "and") = a.v.v THEN
                    LET b == E(e.r, a) IN IF ~Running(b) THEN b ELSE IF b.v.t # "bool" THEN Bad(b, "wrong:TypeError") ELSE b
                 ELSE a
      [] e.k = "bin"   -> LET a == E(e.l, s) IN IF ~Running(a) THEN a ELSE
                          LET b == E(e.r, a) IN IF ~Running(b) THEN b ELSE BinOp(e.op, a.v, b.v, b)
      [] e.k = "not"   -> LET a == E(e.e, s) IN IF ~Running(a) THEN a ELSE IF a.v.t # "bool" THEN Bad(a, "wrong:TypeError") ELSE Val(a, BoolV(~a.v.v))
      [] e.k = "neg"   -> LET a == E(e.e, s) IN IF ~Running(a) THEN a ELSE IF a.v.t # "int" THEN Bad(a, "wrong:TypeError") ELSE Val(a, IntV(0 - a.v.v))
      [] e.k = "ife"   -> LET c == E(e.c, s) IN IF ~Running(c) THEN c ELSE IF c.v.t # "bool" THEN Bad(c, "wrong:TypeError")
                          ELSE IF c.v.v THEN E(e.t, c) ELSE E(e.e, c)
      [] e.k = "qdef"  -> LET a == E(e.l, s) IN IF ~Running(a) THEN a ELSE IF a.v.t = "none" THEN E(e.r, a) ELSE a
      [] e.k = "list"  -> LET a == EArgs(e.es, 1, <<>>, s) IN IF ~Running(a) THEN a ELSE Val(a, ListV(a.v.v))
      [] e.k = "tuple" -> EArgs(e.es, 1, <<>>, s)
      [] e.k = "index" -> LET a == E(e.o, s) IN IF ~Running(a) THEN a ELSE
                          LET i == E(e.i, a) IN IF ~Running(i) THEN i
                          ELSE IF a.v.t \notin {"list", "tup"} \/ i.v.t # "int" THEN Bad(i, "wrong:TypeError")
                          ELSE IF i.v.v >= 0 /\ i.v.v < Len(a.v.v) THEN Val(i, a.v.v[i.v.v + 1])
                          ELSE IF i.v.v < 0 /\ 0 - i.v.v <= Len(a.v.v) THEN Val(i, a.v.v[Len(a.v.v) + i.v.v + 1])
                          ELSE [i EXCEPT !.st = "exc", !.v = StrV("IndexError")]
      [] e.k = "fstr"  -> LET parts == e.parts
                              vars == SelectSeq(parts, LAMBDA p : p.k # "str")
                              a == EArgs(vars, 1, <<>>, s) IN
                          IF ~Running(a) THEN a
                          ELSE IF \E j \in 1..Len(a.v.v) : ~Printable(a.v.v[j]) THEN Bad(a, "unsupported:print-object")
                          ELSE LET F[j \in 0..Len(parts)] ==   \* [text so far, number of holes filled]
                                     IF j = 0 THEN <<"", 0>>
                                     ELSE IF parts[j].k = "str" THEN <<F[j-1][1] \o parts[j].s, F[j-1][2]>>
                                     ELSE <<F[j-1][1] \o Show(a.v.v[F[j-1][2] + 1]), F[j-1][2] + 1>> IN
                               Val(a, StrV(F[Len(parts)][1]))
      [] e.k = "listb" -> LET l == IterVals(e.it, s) IN IF ~Running(l) THEN l
                          ELSE LET r == BuildLoop(e, l.v.v, 1, <<>>, l) IN
                               IF ~Running(r) THEN r
                               ELSE IF s.inf THEN [r EXCEPT !.l = IF e.n \in DOMAIN s.l THEN Put(r.l, e.n, s.l[e.n]) ELSE [x \in DOMAIN r.l \ {e.n} |-> r.l[x]]]
                               ELSE [r EXCEPT !.g = IF e.n \in DOMAIN s.g THEN Put(r.g, e.n, s.g[e.n]) ELSE [x \in DOMAIN r.g \ {e.n} |-> r.g[x]]]
      [] e.k = "lam"   -> Val(s, FunV([k |-> "fun", n |-> "<lambda>", ps |-> e.ps, ret |-> "<value>", raises |-> <<>>, b |-> <<Expr(e.e)>>,
                                           env |-> IF s.inf THEN s.l ELSE EmptyEnv]))
      [] e.k = "call" /\ e.f \notin DOMAIN s.fns /\ Bound(s, e.f) ->          \* a variable or parameter that holds a function value
                          LET g == Lookup(s, e.f) IN
                          IF g.t # "fun" THEN Bad(s, "wrong:TypeError")
                          ELSE LET a == EArgs(e.args, 1, <<>>, s) IN IF ~Running(a) THEN a ELSE CallFun(g.f, NoneV, a.v.v, a)
      [] e.k = "call"  -> IF e.f \notin DOMAIN s.fns THEN Bad(s, "wrong:NameError")
                          ELSE LET a == EArgs(e.args, 1, <<>>, s) IN IF ~Running(a) THEN a ELSE CallFun(s.fns[e.f], NoneV, a.v.v, a)
      [] e.k = "new"   -> IF e.c \notin DOMAIN s.cls THEN
                              (IF e.c = "Exception" THEN LET a == EArgs(e.args, 1, <<>>, s) IN IF ~Running(a) THEN a
                                                        ELSE [a EXCEPT !.h = Append(a.h, [c |-> "Exception", f |-> EmptyEnv]), !.v = ObjV(Len(a.h) + 1)]
                               ELSE Bad(s, "wrong:NameError"))
                          ELSE LET a == EArgs(e.args, 1, <<>>, s) IN IF ~Running(a) THEN a
                               ELSE LET o == Len(a.h) + 1
                                        b == Construct(e.c, o, a.v.v, [a EXCEPT !.h = Append(a.h, [c |-> e.c, f |-> EmptyEnv])]) IN
                                    IF ~Running(b) THEN b ELSE Val(b, ObjV(o))
      [] e.k = "field" -> LET a == E(e.o, s) IN IF ~Running(a) THEN a
                          ELSE IF a.v.t # "obj" THEN Bad(a, "wrong:AttributeError")
                          ELSE IF e.n \in DOMAIN a.h[a.v.r].f THEN Val(a, a.h[a.v.r].f[e.n]) ELSE Bad(a, "wrong:AttributeError")
      [] e.k = "mcall" -> LET a == E(e.o, s) IN IF ~Running(a) THEN a
                          ELSE IF a.v.t # "obj" THEN Bad(a, "wrong:AttributeError")
                          ELSE LET m == FindMethod(a.cls, a.h[a.v.r].c, e.m) IN
                               IF m.k = "absent" THEN Bad(a, "wrong:AttributeError")
                               ELSE LET b == EArgs(e.args, 1, <<>>, a) IN IF ~Running(b) THEN b ELSE CallFun(m, a.v, b.v.v, b)
      [] OTHER -> Bad(s, "unsupported:expression-" \o e.k)

\* bind positional arguments and defaults of parameter list ps into environment env
BindParams(ps, args, j, env, s) ==
    IF j > Len(ps) THEN [s EXCEPT !.v = [t |-> "env", v |-> env]]
    ELSE LET nm == IF ps[j].n = "fin x" THEN "x" ELSE ps[j].n IN
         IF j <= Len(args) THEN BindParams(ps, args, j + 1, Put(env, nm, args[j]), s)
         ELSE IF ps[j].d.k = "absent" THEN Bad(s, "wrong:TypeError")
         ELSE LET d == E(ps[j].d, [s EXCEPT !.inf = FALSE]) IN
              IF ~Running(d) THEN d ELSE BindParams(ps, args, j + 1, Put(env, nm, d.v), [d EXCEPT !.inf = s.inf])

\* call function / method f (self = NoneV for functions) with evaluated args
CallFun(f, self, args, s) ==
    IF s.fuel = 0 THEN Bad(s, "fuel")
    ELSE IF Len(args) > Len(f.ps) THEN Bad(s, "wrong:TypeError")
    ELSE LET b == BindParams(f.ps, args, 1, IF self.t = "obj" THEN Put(EmptyEnv, "self", self) ELSE IF "env" \in DOMAIN f THEN f.env ELSE EmptyEnv, s) IN
         IF ~Running(b) THEN b
         ELSE LET inner == [b EXCEPT !.l = b.v.v, !.inf = TRUE, !.fuel = b.fuel - 1, !.rty = f.ret # ""]
                  r == IF f.ret # "" THEN XBV(f.b, 1, inner) ELSE XB(f.b, 1, inner)
                  back(st, v) == [r EXCEPT !.l = s.l, !.inf = s.inf, !.rty = s.rty, !.st = st, !.v = v] IN
              IF r.st = "ret" THEN back("ok", r.v)
              ELSE IF r.st = "ok" THEN back("ok", NoneV)          \* fell off the end without a value
              ELSE back(r.st, r.v)

\* construct: class arguments, parent constructors, class-body fields, explicit __init__
InitFields(fields, j, o, cname, s) ==
    IF j > Len(fields) THEN s
    ELSE IF fields[j].e.k = "absent" THEN InitFields(fields, j + 1, o, cname, s)
    ELSE LET a == E(fields[j].e, [s EXCEPT !.inf = FALSE]) IN
         IF ~Running(a) THEN a
         ELSE InitFields(fields, j + 1, o, cname, [a EXCEPT !.inf = s.inf, !.h[o].f = Put(a.h[o].f, fields[j].n, a.v)])
InitParents(ps, j, o, env, s) ==
    IF j > Len(ps) THEN s
    ELSE IF ps[j].c \notin DOMAIN s.cls THEN InitParents(ps, j + 1, o, env, s)      \* Exception and other built-in parents
    ELSE LET a == EArgs(ps[j].args, 1, <<>>, [s EXCEPT !.l = env, !.inf = TRUE]) IN
         IF ~Running(a) THEN [a EXCEPT !.l = s.l, !.inf = s.inf]
         ELSE LET b == Construct(ps[j].c, o, a.v.v, [a EXCEPT !.l = s.l, !.inf = s.inf]) IN
              IF ~Running(b) THEN b ELSE InitParents(ps, j + 1, o, env, b)
Construct(cname, o, args, s) ==
    IF s.fuel = 0 THEN Bad(s, "fuel") ELSE
    LET c == s.cls[cname]
        init == FindMethod(Put(EmptyEnv, cname, [c EXCEPT !.parents = <<>>]), cname, "__init__")
        s1 == InitFields(c.fields, 1, o, cname, [s EXCEPT !.fuel = s.fuel - 1]) IN
    IF ~Running(s1) THEN s1
    ELSE IF init.k # "absent" THEN
         \* an explicit __init__: the constructors of the parents run first, in the order of the class header, with their arguments
         \* evaluated among the parameters of __init__; then its body
         LET r == CallFun([init EXCEPT !.b = [j \in 1..Len(c.parents) |-> [k |-> "pinit", c |-> c.parents[j].c, args |-> c.parents[j].args]] \o init.b], ObjV(o), args, s1) IN r
    ELSE IF Len(args) > Len(c.args) THEN Bad(s1, "wrong:TypeError")
    ELSE LET b == BindParams(c.args, args, 1, EmptyEnv, s1) IN
         IF ~Running(b) THEN b
         ELSE LET env == b.v.v
                  defs == {j \in 1..Len(c.args) : c.args[j].isdef}
                  s2 == [b EXCEPT !.h[o].f = [x \in DOMAIN b.h[o].f \cup {c.args[j].n : j \in defs} |->
                                                IF \E j \in defs : c.args[j].n = x THEN env[x] ELSE b.h[o].f[x]]] IN
              InitParents(c.parents, 1, o, env, s2)

\* statements; XB executes a block; XBV executes a function body whose last expression is its value
XB(stmts, j, s) == IF j > Len(stmts) \/ ~Running(s) THEN s ELSE XB(stmts, j + 1, X(stmts[j], s))

\* the value of the last statement of a value block: an expression statement, or recursively the last of the branches
LastValue(st, s) ==
    CASE st.k = "expr"  -> LET r == E(st.e, s) IN IF Running(r) THEN [r EXCEPT !.st = "ret"] ELSE r
      [] st.k = "if" /\ Len(st.e) > 0 ->
            LET c == E(st.c, s) IN IF ~Running(c) THEN c ELSE IF c.v.t # "bool" THEN Bad(c, "wrong:TypeError")
            ELSE IF c.v.v THEN XBV(st.t, 1, c) ELSE XBV(st.e, 1, c)
      [] st.k = "match" -> LET c == E(st.e, s) IN IF ~Running(c) THEN c ELSE MatchArms(st.arms, 1, c.v, [c EXCEPT !.v = [t |-> "valueblock"]])
      [] st.k = "handle" /\ st.s.k = "expr" ->
            LET r == E(st.s.e, s) IN
            IF r.st = "exc" THEN HandleArms(st.arms, 1, r, "<value>", TRUE) ELSE IF Running(r) THEN [r EXCEPT !.st = "ret"] ELSE r
      [] OTHER -> X(st, s)
XBV(stmts, j, s) ==
    IF ~Running(s) THEN s
    ELSE IF j > Len(stmts) THEN s
    ELSE IF j = Len(stmts) THEN LastValue(stmts[j], s)
    ELSE XBV(stmts, j + 1, X(stmts[j], s))

RangeSeq(a, b, incl, step) ==      \* the integers a range visits (bounded by construction of the programs)
    LET F[i \in 0..64] == IF (step > 0 /\ (IF incl THEN a + i * step <= b ELSE a + i * step < b))
                             \/ (step < 0 /\ (IF incl THEN a + i * step >= b ELSE a + i * step > b))
                          THEN a + i * step ELSE 1000000
        n == CHOOSE n \in 0..64 : F[n] = 1000000 /\ \A m \in 0..n-1 : F[m] # 1000000 IN
    [i \in 1..n |-> IntV(F[i - 1])]

\* the values an iterable yields (a range or a list / tuple value): v = ListV(values)
IterVals(it, s) ==
    IF it.k = "range" THEN
        LET a == E(it.a, s) IN IF ~Running(a) THEN a ELSE
        LET b == E(it.b, a) IN IF ~Running(b) THEN b ELSE
        LET c == IF it.step.k = "absent" THEN Val(b, IntV(1)) ELSE E(it.step, b) IN IF ~Running(c) THEN c
        ELSE IF a.v.t # "int" \/ b.v.t # "int" \/ c.v.t # "int" THEN Bad(c, "wrong:TypeError")
        ELSE IF c.v.v = 0 THEN [c EXCEPT !.st = "exc", !.v = StrV("ValueError")]
        ELSE Val(c, ListV(RangeSeq(a.v.v, b.v.v, it.incl, c.v.v)))
    ELSE LET l == E(it, s) IN IF ~Running(l) THEN l ELSE IF l.v.t \notin {"list", "tup"} THEN Bad(l, "wrong:TypeError") ELSE Val(l, ListV(l.v.v))
\* the conditions of a builder hold (evaluated left to right, the first false one ends the evaluation): v = BoolV
Conds(cs, j, s) ==
    IF j > Len(cs) THEN Val(s, BoolV(TRUE))
    ELSE LET r == E(cs[j], s) IN
         IF ~Running(r) THEN r ELSE IF r.v.t # "bool" THEN Bad(r, "wrong:TypeError") ELSE IF r.v.v THEN Conds(cs, j + 1, r) ELSE r
\* list builder b over the values vals: for each value bind the variable, keep the element if all conditions hold
BuildLoop(b, vals, j, acc, s) ==
    IF j > Len(vals) THEN Val(s, ListV(acc))
    ELSE IF s.fuel = 0 THEN Bad(s, "fuel")
    ELSE LET s1 == Bind([s EXCEPT !.fuel = s.fuel - 1], b.n, vals[j])
             c == Conds(b.cs, 1, s1) IN
         IF ~Running(c) THEN c
         ELSE IF ~c.v.v THEN BuildLoop(b, vals, j + 1, acc, c)
         ELSE LET x == E(b.e, c) IN IF ~Running(x) THEN x ELSE BuildLoop(b, vals, j + 1, Append(acc, x.v), x)

ForLoop(n, vals, j, body, s) ==
    IF j > Len(vals) \/ ~Running(s) THEN s
    ELSE IF s.fuel = 0 THEN Bad(s, "fuel")
    ELSE ForLoop(n, vals, j + 1, body, XB(body, 1, Bind([s EXCEPT !.fuel = s.fuel - 1], n, vals[j])))
WhileLoop(c, body, s) ==
    IF ~Running(s) THEN s
    ELSE IF s.fuel = 0 THEN Bad(s, "fuel")
    ELSE LET r == E(c, s) IN
         IF ~Running(r) THEN r ELSE IF r.v.t # "bool" THEN Bad(r, "wrong:TypeError")
         ELSE IF r.v.v THEN WhileLoop(c, body, XB(body, 1, [r EXCEPT !.fuel = r.fuel - 1])) ELSE r

PatMatches(p, v) == CASE p.k = "wild" -> TRUE [] p.k = "var" -> TRUE
                      [] p.k = "int" -> v.t = "int" /\ v.v = p.v [] p.k = "str" -> v.t = "str" /\ v.v = p.s
                      [] p.k = "bool" -> v.t = "bool" /\ v.v = p.b [] OTHER -> FALSE
\* s.v = [t |-> "valueblock"] marks that the arms are value blocks (implicit return of a function)
MatchArms(arms, j, v, s) ==
    IF j > Len(arms) THEN (IF s.v.t = "valueblock" THEN Val(s, NoneV) ELSE s)       \* no arm matched: nothing happens
    ELSE IF PatMatches(arms[j].p, v) THEN
            LET s1 == IF arms[j].p.k = "var" THEN Bind(s, arms[j].p.n, v) ELSE s IN
            IF s.v.t = "valueblock" THEN XBV(arms[j].b, 1, Val(s1, NoneV)) ELSE XB(arms[j].b, 1, s1)
    ELSE MatchArms(arms, j + 1, v, s)

\* r: state with st = "exc" and v the exception (an object, or StrV(builtin class name))
ExcClass(r) == IF r.v.t = "obj" THEN r.h[r.v.r].c ELSE r.v.v
HandleArms(arms, j, r, target, asValue) ==
    IF j > Len(arms) THEN r                                               \* not handled: propagates
    ELSE IF arms[j].c \in ClsAnc(r.cls, ExcClass(r)) \/ (arms[j].c = "Exception" /\ r.v.t = "str") THEN
            LET s1 == [r EXCEPT !.st = "ok"]
                s2 == IF arms[j].n = "_" THEN s1 ELSE Bind(s1, arms[j].n, r.v) IN
            IF asValue THEN XBV(arms[j].b, 1, s2)
            ELSE IF target = "" THEN XB(arms[j].b, 1, s2)
            ELSE \* the arm's last expression becomes the value of the target
                 LET body == arms[j].b
                     pre == XB(SubSeq(body, 1, Len(body) - 1), 1, s2) IN
                 IF ~Running(pre) THEN pre
                 ELSE IF body[Len(body)].k = "expr" THEN LET vv == E(body[Len(body)].e, pre) IN IF ~Running(vv) THEN vv ELSE Bind(vv, target, vv.v)
                 ELSE X(body[Len(body)], pre)
    ELSE HandleArms(arms, j + 1, r, target, asValue)

X(st, s) ==
    CASE st.k = "def"    -> IF st.e.k = "absent" THEN s ELSE LET r == E(st.e, s) IN IF ~Running(r) THEN r ELSE Bind(r, st.n, r.v)
      [] st.k = "deftup" -> LET r == E(st.e, s) IN IF ~Running(r) THEN r
                            ELSE IF r.v.t # "tup" \/ Len(r.v.v) # Len(st.ns) THEN Bad(r, "wrong:TypeError")
                            ELSE LET B[j \in 0..Len(st.ns)] == IF j = 0 THEN r ELSE Bind(B[j-1], st.ns[j], r.v.v[j]) IN B[Len(st.ns)]
      [] st.k = "assign" -> LET r == E(st.e, s) IN IF ~Running(r) THEN r ELSE IF ~Bound(r, st.n) THEN Bad(r, "wrong:NameError") ELSE Bind(r, st.n, r.v)
      [] st.k = "aug"    -> X(Assign(st.n, Bin(st.op, Var(st.n), st.e)), s)
      [] st.k = "fassign"-> LET o == E(st.o, s) IN IF ~Running(o) THEN o ELSE IF o.v.t # "obj" THEN Bad(o, "wrong:AttributeError")
                            ELSE LET r == E(st.e, o) IN IF ~Running(r) THEN r ELSE [r EXCEPT !.h[o.v.r].f = Put(r.h[o.v.r].f, st.f, r.v)]
      [] st.k = "faug"   -> X(FAssign(st.o, st.f, Bin(st.op, Field(st.o, st.f), st.e)), s)
      [] st.k = "print"  -> LET r == E(st.e, s) IN IF ~Running(r) THEN r
                            ELSE IF ~Printable(r.v) THEN Bad(r, "unsupported:print-object") ELSE [r EXCEPT !.out = Append(r.out, Show(r.v))]
      [] st.k = "expr"   -> E(st.e, s)
      [] st.k = "pass"   -> s
      [] st.k = "pinit"  -> IF st.c \notin DOMAIN s.cls THEN s
                            ELSE LET a == EArgs(st.args, 1, <<>>, s) IN IF ~Running(a) THEN a ELSE Construct(st.c, s.l["self"].r, a.v.v, a)
      [] st.k = "if"     -> LET c == E(st.c, s) IN IF ~Running(c) THEN c ELSE IF c.v.t # "bool" THEN Bad(c, "wrong:TypeError")
                            ELSE IF c.v.v THEN XB(st.t, 1, c) ELSE XB(st.e, 1, c)
      [] st.k = "while"  -> WhileLoop(st.c, st.b, s)
      [] st.k = "for"    -> IF st.it.k = "range" THEN
                                LET a == E(st.it.a, s) IN IF ~Running(a) THEN a ELSE
                                LET b == E(st.it.b, a) IN IF ~Running(b) THEN b ELSE
                                LET c == IF st.it.step.k = "absent" THEN Val(b, IntV(1)) ELSE E(st.it.step, b) IN IF ~Running(c) THEN c
                                ELSE IF a.v.t # "int" \/ b.v.t # "int" \/ c.v.t # "int" THEN Bad(c, "wrong:TypeError")
                                ELSE IF c.v.v = 0 THEN [c EXCEPT !.st = "exc", !.v = StrV("ValueError")]
                                ELSE ForLoop(st.n, RangeSeq(a.v.v, b.v.v, st.it.incl, c.v.v), 1, st.b, c)
                            ELSE LET l == E(st.it, s) IN IF ~Running(l) THEN l
                                 ELSE IF l.v.t \notin {"list", "tup"} THEN Bad(l, "wrong:TypeError") ELSE ForLoop(st.n, l.v.v, 1, st.b, l)
      [] st.k = "match"  -> LET c == E(st.e, s) IN IF ~Running(c) THEN c ELSE MatchArms(st.arms, 1, c.v, Val(c, NoneV))
      [] st.k = "ret"    -> LET r == E(st.e, s) IN IF ~Running(r) THEN r ELSE [r EXCEPT !.st = "ret"]
      [] st.k = "ret0"   -> [s EXCEPT !.st = "ret", !.v = NoneV]
      [] st.k = "raise"  -> LET r == E(New(st.c, st.args), s) IN IF ~Running(r) THEN r ELSE [r EXCEPT !.st = "exc"]
      [] st.k = "handle" -> IF st.s.k = "def"
                            THEN LET r == E(st.s.e, s) IN
                                 IF r.st = "exc" THEN HandleArms(st.arms, 1, r, st.s.n, FALSE)
                                 ELSE IF ~Running(r) THEN r ELSE Bind(r, st.s.n, r.v)
                            ELSE LET r == E(st.s.e, s) IN IF r.st = "exc" THEN HandleArms(st.arms, 1, r, "", FALSE) ELSE r
      [] st.k = "fun"    -> [s EXCEPT !.fns = Put(s.fns, st.n, st)]
      [] st.k = "class"  -> [s EXCEPT !.cls = Put(s.cls, st.n, st)]
      [] OTHER -> Bad(s, "unsupported:statement-" \o st.k)

WrongStates == {"wrong:TypeError", "wrong:AttributeError", "wrong:NameError"}
\* cat: "ok" (ran to the end) | "exc" (uncaught exception of class `status`) | "wrong" (the program goes wrong) | "skip" (outside the model)
Run(p, fuel) ==
    LET r == XB(p.stmts, 1, S0(fuel)) IN
    [out |-> r.out,
     cat |-> IF r.st \in {"ok", "ret"} THEN "ok" ELSE IF r.st = "exc" THEN "exc" ELSE IF r.st \in WrongStates THEN "wrong" ELSE "skip",
     status |-> IF r.st \in {"ok", "ret"} THEN "ok" ELSE IF r.st = "exc" THEN ExcClass(r) ELSE r.st]
=====================================================================================
