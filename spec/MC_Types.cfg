INIT Init
NEXT Next
INVARIANT LawsOfSub
INVARIANT Emit
CHECK_DEADLOCK FALSE
