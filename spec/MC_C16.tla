------------------------------------- MODULE MC_C16 -------------------------------------
(* C16, role R2: programs that use every construct which needs a support import (sqrt -> math; T? -> Optional; unions -> Union;   *)
(* tuples -> Tuple; function types -> Callable; Any; abstract type -> ABC; abstract method -> abstractmethod), alone and in pairs,  *)
(* at top level / inside a function / inside a class / nested in another annotation / in a handled definition, plugged under the     *)
(* context grid.                                                                                                                      *)
EXTENDS MambaStatic, Json
AbsM(n) == [Method(n, TRUE, <<>>, "Int", <<>>, <<>>) EXCEPT !.b = <<>>] @@ [abstract |-> TRUE]
AbsC(n, parents, fields, methods) == [Class(n, <<>>, parents, fields, methods) EXCEPT !.k = "class"] @@ [abstract |-> TRUE]
CONSTANTS Depth, Part
Raw(s) == [k |-> "raw", v |-> s]
RawS(s) == [k |-> "raw", v |-> s]       \* a statement given as text (the user's import statements)
\* a construct: name, declarations, statements
Constructs == {
   <<"sqrt",      <<>>, <<Def("r1", TRUE, "Float", Raw("sqrt 4.0"))>>>>,
   <<"optional",  <<>>, <<Def("o1", TRUE, "Int?", NoneL)>>>>,
   <<"union",     <<>>, <<Def("u1", TRUE, "{Int, Str}", IntL(1))>>>>,
   <<"tuple",     <<>>, <<Def("t1", TRUE, "(Int, Str)", TupL(<<IntL(1), StrL("s")>>))>>>>,
   <<"any",       <<>>, <<Def("a1", TRUE, "Any", IntL(1))>>>>,
   <<"nested",    <<>>, <<Def("n1", TRUE, "List[Int?]", ListL(<<IntL(1)>>))>>>>,
   <<"nested2",   <<>>, <<Def("n2", TRUE, "({Int, Str}, Int?)", TupL(<<IntL(1), NoneL>>))>>>>,
   <<"callable",  <<Fun("apply", <<Param("g", "Int -> Int", Absent)>>, "Int", <<>>, <<Expr(Call("g", <<IntL(1)>>))>>)>>, <<PrintS(StrL("c"))>>>>,
   <<"param-opt", <<Fun("po", <<Param("x", "Int?", Absent), Param("y", "{Int, Str}", Absent)>>, "Int?", <<>>, <<Expr(Var("x"))>>)>>, <<Expr(Call("po", <<NoneL, IntL(1)>>))>>>>,
   <<"field-opt", <<Class("FO", <<CArg("c", TRUE, TRUE, "Int?", Absent)>>, <<>>, <<Def("fo", TRUE, "Str?", NoneL)>>, <<Method("m", TRUE, <<>>, "(Int, Int)", <<>>, <<Expr(TupL(<<IntL(1), IntL(2)>>))>>)>>)>>, <<Def("fo1", TRUE, "", New("FO", <<NoneL>>))>>>>,
   <<"abstract",  <<[Class("Shape", <<>>, <<>>, <<>>, <<[Method("area", TRUE, <<>>, "Int", <<>>, <<>>) EXCEPT !.b = <<>>] @@ [abstract |-> TRUE]>>) EXCEPT !.k = "class"] @@ [abstract |-> TRUE],
                    Class("Sq", <<>>, <<Parent("Shape", <<>>)>>, <<>>, <<Method("area", TRUE, <<>>, "Int", <<>>, <<Expr(IntL(4))>>)>>)>>, <<PrintS(MCall(New("Sq", <<>>), "area", <<>>))>>>>,
   \* interfaces that extend interfaces: the abstract method is declared by the child only, by root and child, by the root only
   <<"abstract-chain-child", <<AbsC("Shape", <<>>, <<Def("sides", TRUE, "Int", Absent)>>, <<>>), AbsC("Solid", <<Parent("Shape", <<>>)>>, <<>>, <<AbsM("volume")>>),
                    Class("Cube", <<>>, <<Parent("Solid", <<>>)>>, <<Def("sides", TRUE, "Int", IntL(6))>>, <<Method("volume", TRUE, <<>>, "Int", <<>>, <<Expr(IntL(8))>>)>>)>>, <<PrintS(MCall(New("Cube", <<>>), "volume", <<>>))>>>>,
   <<"abstract-chain-both", <<AbsC("Shape", <<>>, <<>>, <<AbsM("area")>>), AbsC("Solid", <<Parent("Shape", <<>>)>>, <<>>, <<AbsM("volume")>>),
                    Class("Cube", <<>>, <<Parent("Solid", <<>>)>>, <<>>, <<Method("area", TRUE, <<>>, "Int", <<>>, <<Expr(IntL(6))>>), Method("volume", TRUE, <<>>, "Int", <<>>, <<Expr(IntL(8))>>)>>)>>, <<PrintS(MCall(New("Cube", <<>>), "volume", <<>>))>>>>,
   <<"abstract-chain-root", <<AbsC("Shape", <<>>, <<>>, <<AbsM("area")>>), AbsC("Solid", <<Parent("Shape", <<>>)>>, <<Def("sides", TRUE, "Int", Absent)>>, <<>>),
                    Class("Cube", <<>>, <<Parent("Solid", <<>>)>>, <<Def("sides", TRUE, "Int", IntL(6))>>, <<Method("area", TRUE, <<>>, "Int", <<>>, <<Expr(IntL(6))>>)>>)>>, <<PrintS(MCall(New("Cube", <<>>), "area", <<>>))>>>>,
   <<"abstract-fields-only", <<AbsC("Shape", <<>>, <<Def("sides", TRUE, "Int", Absent)>>, <<>>),
                    Class("Tri", <<>>, <<Parent("Shape", <<>>)>>, <<Def("sides", TRUE, "Int", IntL(3))>>, <<>>)>>, <<PrintS(Field(New("Tri", <<>>), "sides"))>>>>,
   <<"sqrt-in-fun", <<Fun("root", <<Param("x", "Float", Absent)>>, "Float", <<>>, <<Expr(Raw("sqrt x"))>>)>>, <<PrintS(StrL("r"))>>>>,
   <<"sqrt-in-method", <<Class("R", <<>>, <<>>, <<>>, <<Method("root", TRUE, <<Param("x", "Float", Absent)>>, "Float", <<>>, <<Expr(Raw("sqrt x"))>>)>>)>>, <<PrintS(StrL("r"))>>>>,
   \* the typing names in their INFERRED and degenerate forms (no annotation in the source, no type arguments)
   <<"empty-tuple",       <<>>, <<Def("e1", TRUE, "", TupL(<<>>))>>>>,
   <<"empty-list",        <<>>, <<Def("e2", TRUE, "", ListL(<<>>))>>>>,
   <<"inferred-tuple",    <<>>, <<Def("t2", TRUE, "", TupL(<<IntL(1), StrL("s")>>))>>>>,
   <<"inferred-optional", <<Fun("mo", <<>>, "Int?", <<>>, <<Expr(NoneL)>>)>>, <<Def("o5", TRUE, "", Call("mo", <<>>))>>>>,
   <<"inferred-callable", <<Fun("app2", <<Param("g", "() -> Int", Absent)>>, "Int", <<>>, <<Expr(Call("g", <<>>))>>)>>, <<Def("c2", TRUE, "Int", Call("app2", <<Lam(<<>>, IntL(3))>>))>>>>,
   <<"bare-tuple-return", <<RawS("def bt() -> Tuple => ()")>>, <<PrintS(StrL("b"))>>>>,
   <<"bare-list-param",   <<RawS("def bl(x: List) => print(\"l\")")>>, <<PrintS(StrL("b"))>>>>,
   \* a definition with a DECLARED type whose value is a block-form conditional: every branch gets the INFERRED type of the value as annotation
   <<"block-if-union",    <<Class("Shape", <<>>, <<>>, <<>>, <<>>), Class("Circle", <<>>, <<Parent("Shape", <<>>)>>, <<>>, <<>>), Class("Square", <<>>, <<Parent("Shape", <<>>)>>, <<>>, <<>>)>>,
                          <<Def("sh", TRUE, "Shape", IfEB(BoolL(TRUE), New("Circle", <<>>), New("Square", <<>>)))>>>>,
   <<"block-if-any",      <<>>, <<Def("an", TRUE, "Any", IfEB(BoolL(TRUE), IntL(1), StrL("s")))>>>>,
   <<"block-if-optional", <<>>, <<Def("op", TRUE, "Any", IfEB(BoolL(TRUE), FloatL("1.5"), NoneL))>>>>,
   <<"block-if-tuple",    <<>>, <<Def("bt", TRUE, "Any", IfEB(BoolL(TRUE), TupL(<<IntL(1), StrL("s")>>), TupL(<<IntL(2), StrL("t")>>)))>>>>,
   \* the user's own imports next to a construct that needs the same module: plain, under an alias, single names under an alias
   <<"user-import-math+sqrt",        <<RawS("import math")>>,                         <<Def("r2", TRUE, "Float", Raw("sqrt 9.0"))>>>>,
   <<"user-import-math-alias+sqrt",  <<RawS("import math as m")>>,                    <<Def("r3", TRUE, "Float", Raw("sqrt 9.0"))>>>>,
   <<"user-from-math-alias+sqrt",    <<RawS("from math import sqrt as root")>>,       <<Def("r4", TRUE, "Float", Raw("sqrt 9.0"))>>>>,
   <<"user-from-typing-alias+opt",   <<RawS("from typing import Optional as Opt")>>,  <<Def("o2", TRUE, "Int?", NoneL), Def("u2", TRUE, "{Int, Str}", IntL(1))>>>>,
   <<"user-import-typing-alias+opt", <<RawS("import typing as t")>>,                  <<Def("o3", TRUE, "Int?", NoneL)>>>>,
   <<"user-from-typing-same+opt",    <<RawS("from typing import Optional")>>,         <<Def("o4", TRUE, "Int?", NoneL)>>>>,
   <<"user-from-abc-alias+abstract", <<RawS("from abc import ABC as Base")>>,         <<PrintS(StrL("a"))>>>>,
   <<"handled-opt", CtxDecls(<<"harm">>), <<Handle(Def("h1", TRUE, "Int?", Call("ctx_raises", <<>>)), <<HArm("CtxErr", "err", <<Expr(NoneL)>>)>>)>>>> }

Single == { [name |-> c[1], decls |-> c[2], setup |-> <<>>, stmts |-> c[3], writes |-> FALSE] : c \in Constructs }
Pairs == { [name |-> a[1] \o "+" \o b[1], decls |-> a[2] \o b[2], setup |-> <<>>, stmts |-> a[3] \o b[3], writes |-> FALSE]
           : a \in Constructs, b \in {x \in Constructs : x[1] # "handled-opt"} }
Probes == IF Part = "single" THEN Single ELSE {p \in Pairs : \A x \in Constructs : p.name # x[1] \o "+" \o x[1]}
Cases == { [prop |-> "C16", kind |-> p.name, ctx |-> ctx, hoist |-> FALSE, prog |-> Plug(ctx, FALSE, p)]
           : p \in Probes, ctx \in (IF Part = "single" THEN Ctxs(Wrappers, Depth) ELSE {<<>>}) }
VARIABLE c
Init == c \in { x \in Cases : x.kind = "handled-opt" => \A j \in 1..Len(x.ctx) : x.ctx[j] # "harm" }
Next == UNCHANGED c
Emit == PrintT("@@" \o ToJson(c))
=====================================================================================
