------------------------------------- MODULE MambaAPI -------------------------------------
(* C17: the Python API a Mamba file must expose, as a function of its abstract syntax.                          *)
(*   top-level function  -> same name, same parameter names in the same order, same defaults and vararg markers;  *)
(*   class               -> same name, parents in order; every method under its name (operators under the         *)
(*                          corresponding dunder name), parameters without self; the constructor is __init__       *)
(*                          taking the class arguments (or the parameters of an explicit __init__).                *)
(* A class without class arguments and without explicit __init__ may or may not get a parameterless __init__.      *)
EXTENDS MambaSyntax

Dunder(n) == CASE n = "+" -> "__add__" [] n = "-" -> "__sub__" [] n = "*" -> "__mul__" [] n = "/" -> "__truediv__" [] n = "//" -> "__floordiv__"
               [] n = "mod" -> "__mod__" [] n = "^" -> "__pow__" [] n = "=" -> "__eq__" [] n = "!=" -> "__ne__" [] n = "<" -> "__lt__"
               [] n = "<=" -> "__le__" [] n = ">" -> "__gt__" [] n = ">=" -> "__ge__" [] n = "init" -> "__init__" [] OTHER -> n

IsVararg(p) == "vararg" \in DOMAIN p /\ p.vararg
ParamSig(ps) == [j \in 1..Len(ps) |-> [n |-> ps[j].n, default |-> ps[j].d.k # "absent", star |-> IsVararg(ps[j])]]
FunSig(f) == [kind |-> "fun", name |-> Dunder(f.n), params |-> ParamSig(f.ps)]
MethodSig(m) == [name |-> Dunder(m.n), params |-> ParamSig(m.ps)]
\* class arguments as constructor parameters; an explicit first argument `self: T` (the documented form of type refinement) is the receiver
CtorArgs(c) == IF Len(c.args) > 0 /\ c.args[1].n = "self" THEN Tail(c.args) ELSE c.args
HasInit(c) == \E j \in 1..Len(c.methods) : c.methods[j].n \in {"__init__", "init"}
\* the methods the class must expose (as a set, the order of members is not part of the property)
Methods(c) == {MethodSig(c.methods[j]) : j \in 1..Len(c.methods)}
              \cup (IF ~HasInit(c) /\ Len(CtorArgs(c)) > 0 THEN {[name |-> "__init__", params |-> ParamSig(CtorArgs(c))]} ELSE {})
OptionalInit(c) == ~HasInit(c) /\ Len(CtorArgs(c)) = 0
ClassSig(c) == [kind |-> "class", name |-> c.n, bases |-> [j \in 1..Len(c.parents) |-> c.parents[j].c], methods |-> Methods(c), optional_init |-> OptionalInit(c)]

Defs(p) == SelectSeq(p.stmts, LAMBDA s : s.k \in {"fun", "class"})
Signatures(p) == [j \in 1..Len(Defs(p)) |-> IF Defs(p)[j].k = "fun" THEN FunSig(Defs(p)[j]) ELSE ClassSig(Defs(p)[j])]

\* an observed API entry (from the Python AST) matches an expected one
AsSet(s) == {s[j] : j \in 1..Len(s)}
MatchEntry(e, o) ==
    IF e.kind = "fun" THEN o.kind = "fun" /\ o.name = e.name /\ o.params = e.params
    ELSE /\ o.kind = "class" /\ o.name = e.name
         /\ (Len(o.bases) >= Len(e.bases) /\ SubSeq(o.bases, 1, Len(e.bases)) = e.bases)           \* parents preserved in order (a support base like ABC may follow)
         /\ LET om == AsSet(o.methods) IN
            \/ om = e.methods
            \/ e.optional_init /\ om = e.methods \cup {[name |-> "__init__", params |-> <<>>]}
SameAPI(p, observed) == LET e == Signatures(p) IN
                        Len(observed) = Len(e) /\ \A j \in 1..Len(e) : MatchEntry(e[j], observed[j])
=====================================================================================
