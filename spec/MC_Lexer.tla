------------------------------------- MODULE MC_Lexer -------------------------------------
(* C18 R1: Good(src) - the faithful lexer satisfies the abstract properties - for every string of <= N units over the       *)
(* position-relevant alphabets (the same families the real lexer is run on, spec/LexInputs.tla).  The model's token stream    *)
(* is emitted for the drift comparison with the real lexer.                                                                    *)
EXTENDS Lexer, Json
CONSTANTS AlphaName, N
AlphaFull  == <<"a", "1", " ", "\n", "\"", "{", "}", "\\", "#", ".", "\r\n", "=">>
AlphaLines == <<"a", " ", "\n", "\"", "{">>
AlphaInd   == <<"a", " ", "\n", "#">>
AlphaInterp == <<"a", " ", "\"", "{", "}">>
AlphaDoc == <<"\"\"\"", "a", " ", "\n">>
AlphaILines == <<"a", "\n", "\"", "{", "}">>
\* character classes: first / last letters and digits of each range, E (exponent), underscore, point, blank
AlphaClasses == <<"a", "z", "A", "Z", "E", "_", "0", "9", ".", " ">>
Alpha == CASE AlphaName = "full" -> AlphaFull [] AlphaName = "lines" -> AlphaLines [] AlphaName = "indent" -> AlphaInd [] AlphaName = "interp" -> AlphaInterp [] AlphaName = "doc" -> AlphaDoc [] AlphaName = "ilines" -> AlphaILines
           [] AlphaName \in {"classes", "words"} -> AlphaClasses
\* family "words": every word of the lexer's tables alone, and with a character of each class glued before / behind it
WordInputs == AllWords \cup UNION { UNION { {<<c>> \o w, w \o <<c>>, w \o <<" ">> \o w} : c \in {"a", "Z", "_", "9", "E"} } : w \in AllWords }
RECURSIVE Flatten(_, _)
Flatten(parts, j) == IF j > Len(parts) THEN <<>> ELSE (IF parts[j] = "\r\n" THEN <<"\r", "\n">> ELSE IF parts[j] = "\"\"\"" THEN <<"\"", "\"", "\"">> ELSE <<parts[j]>>) \o Flatten(parts, j + 1)
VARIABLE parts
Init == IF AlphaName = "words" THEN parts \in WordInputs ELSE parts = <<>>
Next == AlphaName # "words" /\ Len(parts) < N /\ \E j \in 1..Len(Alpha) : parts' = Append(parts, Alpha[j])
GoodInv == Good(Flatten(parts, 1))
EmitCase == LET r == Lex(Flatten(parts, 1)) IN
        PrintT("@@" \o ToJson([parts |-> parts, err |-> r.err, toks |-> [j \in 1..Len(r.out) |-> [k |-> r.out[j].k, sl |-> r.out[j].sl, sc |-> r.out[j].sc, el |-> r.out[j].el, ec |-> r.out[j].ec]]]))
=====================================================================================
