--------------------------------- MODULE PyExprJudge ---------------------------------
(* C10, role R3: judge of observations recorded from the real printer.  One record per tree:           *)
(*   tree : the Core tree that was built as a real `Core` value and printed with its Display,           *)
(*   back : what CPython's ast.parse made of the printed text, mapped back to the tree vocabulary,      *)
(*   toks : CPython's tokenisation of the printed text.                                                 *)
(* Decisive: back = PyOf(tree)   (Python parses the printed text back to the same tree).                *)
(* Drift   : the model printer Pr agrees with the real text; the model grammar Parse agrees with CPython.*)
EXTENDS PyExpr, Json, IOUtils

Rec == ndJsonDeserialize(IOEnv.TRACE)

VARIABLE r
Init == r \in 1..Len(Rec)
Next == UNCHANGED r

Verdict(o) == IF o.back = PyOf(o.tree) THEN "ok" ELSE "violation:printed-text-parses-to-another-tree"
DriftPrinter(o) == o.ok /\ Pr(o.tree) # o.toks
DriftGrammar(o) == o.ok /\ Parse(o.toks) # o.back

Report == PrintT("@@" \o ToJson([id |-> Rec[r].id, v |-> Verdict(Rec[r]),
                                 dp |-> DriftPrinter(Rec[r]), dg |-> DriftGrammar(Rec[r])]))
=====================================================================================
