-------------------------------------- MODULE Diag --------------------------------------
(* C19: diagnostics are well-formed and point into the offending file and line.                              *)
(* A rendered diagnostic is abstracted to  [file, has_pos, line, col, quoted |-> <<[n, text]>>, marked |-> <<line>>]  (read off the   *)
(* rendering by py-side parsing; the rendering format itself is not part of the property).                       *)
(* WellFormed(d, src) is the property's sentence; FaultLine its last clause.                                     *)
EXTENDS Naturals, Sequences, FiniteSets, TLC

\* src: [path |-> relative path, lines |-> <<text>>, lens |-> <<length of each line>>]
NamesFile(d, src)   == d.file = src.path
PosInside(d, src)   == d.has_pos => /\ d.line >= 1 /\ d.line <= Len(src.lines)
                                    /\ d.col >= 1 /\ d.col <= src.lens[d.line] + 1
QuotesVerbatim(d, src) == \A j \in 1..Len(d.quoted) :
                              LET q == d.quoted[j] IN q.n >= 1 /\ q.n <= Len(src.lines) /\ q.text = src.lines[q.n]
WellFormed(d, src) == NamesFile(d, src) /\ PosInside(d, src) /\ QuotesVerbatim(d, src)
\* some reported position (the diagnostic's own or one of its causes: `marked` lists the lines that carry a marker) is on
\* the fault line
FaultLine(ds, L) == L = 0 \/ \E j \in 1..Len(ds) : \E m \in 1..Len(ds[j].marked) : ds[j].marked[m] = L
=====================================================================================
