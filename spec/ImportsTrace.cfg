INIT TInit
NEXT TNext
CONSTANT L = 99
INVARIANT Report
INVARIANT NoDuplicates
INVARIANT SortedNames
CHECK_DEADLOCK FALSE
