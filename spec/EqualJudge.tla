------------------------------------- MODULE EqualJudge -------------------------------------
(* C14 / C15, role R3: a variant of an input (trivia edit, renaming mapped back) must get the same verdict and   *)
(* the same emitted program as the original.  Records: [orig |-> [acc, out], variant |-> [acc, out], panic].       *)
EXTENDS Naturals, Sequences, TLC, Json, IOUtils
Rec == ndJsonDeserialize(IOEnv.TRACE)
Judge(o) == IF o.panic THEN "skip:panic"
            ELSE IF o.orig.acc # o.variant.acc THEN "violation:verdict-changed"
            ELSE IF o.orig.acc /\ o.orig.out # o.variant.out THEN "violation:emitted-python-changed"
            ELSE "ok"
VARIABLE r
Init == r \in 1..Len(Rec)
Next == UNCHANGED r
Report == PrintT("@@" \o ToJson([id |-> Rec[r].id, v |-> Judge(Rec[r])]))
=====================================================================================
