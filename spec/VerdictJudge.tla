--------------------------------- MODULE VerdictJudge ---------------------------------
(* C05-C09, role R3: judge of recorded compiler verdicts.  One record per plugged probe:                 *)
(*   prop, kind, note (the probe's parameters), off / on (what the real pipeline answered with            *)
(*   annotate off / on: "accept" | "reject" | "panic").                                                   *)
(* The expected verdict is recomputed here from the parameters with MambaStatic's rules - the label       *)
(* the generator attached is not trusted.  Allowed(..) is a set: where the documentation leaves the       *)
(* verdict open, both answers are allowed.                                                                *)
EXTENDS MambaStatic, MambaScope, Json, IOUtils

Rec == ndJsonDeserialize(IOEnv.TRACE)

NullSrcType(T, s) == CASE s = "none" -> NoneT [] s \in {"nullable", "call", "call-via-var"} -> NT(T, TRUE) [] OTHER -> NT(T, FALSE)
AsSet(seq) == {seq[j] : j \in 1..Len(seq)}      \* JSON has no sets
Rule(o) ==
    LET n == o.note IN
    CASE o.kind \in {"call", "method", "ctor"}       -> {Verdict(CallOK(n.sig, n.args))}
      [] o.kind = "result-use"                       -> {Verdict(n.ret # "" /\ InitOK(n.used_as, n.ret))}
      [] o.kind = "call-result"                      -> {Verdict(InitOK(n.used_as, n.ret))}
      [] o.kind \in {"return", "return-method"}      -> {Verdict(ReturnOK(n.declared, n.actual))}
      [] o.kind \in {"init", "field-init"}           -> {Verdict(InitOK(n.declared, n.actual))}
      [] o.kind \in {"tuple-arg", "tuple-init"}      -> {Verdict(\A j \in 1..Len(n.declared) : Sub(n.declared[j], n.actual[j]))}
      [] o.kind \in {"null-init", "null-assign", "null-field", "null-arg", "null-ctor-arg", "null-return"}
                                                     -> IF n.source = "call-via-var" /\ SubN(NT(n.target, n.target_nullable), NullSrcType(n.T, n.source))
                                                        THEN {"accept", "reject"}     \* storing a T? in a variable WITHOUT annotation: the property does not say it is accepted
                                                        ELSE {Verdict(SubN(NT(n.target, n.target_nullable), NullSrcType(n.T, n.source)))}
      [] o.kind = "null-return-twin"                 -> {"accept"}
      [] o.kind = "null-use"                         -> {Verdict(n.source \in {"value", "defaulted"})}
      [] o.kind = "fin-loopvar"                      -> {"accept", "reject"}
      [] o.kind \in {"fin-var", "fin-undefined", "fin-param", "fin-member", "fin-shadow"}
                                                     -> {Verdict(WriteOK(n.defined, n.mutable, n.recv_mutable))}
      [] o.kind \in {"raises", "raises-nested", "raises-after-handle", "raises-in-arm"}
                                                     -> {Verdict(RaisesOK(n.raised, AsSet(n.declared), AsSet(n.handled)))}
      [] o.kind = "raises-multi"                     -> {Verdict(RaisesAllOK(n.raised_all, AsSet(n.declared), AsSet(n.handled)))}
      [] o.kind = "raises-declare-list"              -> {Verdict(\A j \in 1..Len(n.declared_list) : DeclarableOK(n.declared_list[j]))}
      [] o.kind = "raises-declare"                   -> {Verdict(DeclarableOK(n.declared_class))}
      [] o.prop = "C09" /\ n.pattern = "shadow-new-type-old" -> {Verdict(InitOK("Int", "Str"))}   \* the new binding is a Str
      [] o.prop = "C09"                              -> Verdicts(o.prog)          \* the analysis of MambaScope on the program itself
      [] OTHER                                       -> {o.expect}

Judge(o) ==
    IF o.off = "panic" \/ o.on = "panic" THEN "skip:panic"
    ELSE IF o.off # o.on THEN "violation:verdict-depends-on-annotate"
    ELSE IF o.off \in Rule(o) THEN "ok"
    ELSE IF o.off = "accept" THEN "violation:non-conforming-use-accepted"
    ELSE "violation:conforming-use-rejected"

VARIABLE r
Init == r \in 1..Len(Rec)
Next == UNCHANGED r
Report == PrintT("@@" \o ToJson([id |-> Rec[r].id, v |-> Judge(Rec[r]), label_agrees |-> Rec[r].expect = "either" \/ Rec[r].expect \in Rule(Rec[r])]))
=====================================================================================
