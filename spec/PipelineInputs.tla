-------------------------------- MODULE PipelineInputs --------------------------------
(* C03, role R2: adversarial input families as TLA+ sets, enumerated by TLC (exhaustive and reproducible). *)
(*   soup    : every sequence of <= K spellings over a 14-token vocabulary (joined by single spaces)        *)
(*   graphs  : every inheritance digraph on 3 classes (self loops, cycles, diamonds), with a use site       *)
(*   ggraphs : inheritance graphs over GENERIC classes (other instantiations, own type parameter as parent)     *)
(*   shapes  : deep nesting, long files, empty tuples / patterns in binder positions, braces and quotes in  *)
(*             strings, lone CR, non-ASCII, tabs, huge literals                                             *)
EXTENDS Naturals, Sequences, FiniteSets, TLC, Json

CONSTANTS Family, K

Vocab == <<"def", "x", ":=", "1", "(", ")", ",", "\n", "\n    ", "if", "then", ":", "\"s\"", "class">>
RECURSIVE Join(_, _)
Join(s, j) == IF j > Len(s) THEN "" ELSE s[j] \o (IF j < Len(s) THEN " " ELSE "") \o Join(s, j + 1)
RECURSIVE Rep(_, _)
Rep(s, n) == IF n = 0 THEN "" ELSE s \o Rep(s, n - 1)
RECURSIVE Lines(_, _)
Lines(n, j) == IF j > n THEN "" ELSE "def v" \o ToString(j) \o " := " \o ToString(j) \o "\n" \o Lines(n, j + 1)
RECURSIVE IfNest(_, _)
IfNest(n, ind) == IF n = 0 THEN Rep("    ", ind) \o "print(1)\n" ELSE Rep("    ", ind) \o "if True then\n" \o IfNest(n - 1, ind + 1)

Names == <<"A", "B", "C">>
ParentsStr(S) == LET seq == SelectSeq(Names, LAMBDA n : n \in S) IN
                 IF Len(seq) = 0 THEN "" ELSE ": " \o (IF Len(seq) = 1 THEN seq[1] ELSE IF Len(seq) = 2 THEN seq[1] \o ", " \o seq[2] ELSE seq[1] \o ", " \o seq[2] \o ", " \o seq[3])
GraphSrc(g) == "class A" \o ParentsStr(g[1]) \o "\nclass B" \o ParentsStr(g[2]) \o "\nclass C" \o ParentsStr(g[3]) \o "\ndef x := A()\ndef y: B := C()\n"

\* diagnostics ON tokens that span lines (the end column may lie left or right of the start column): every fault template around
\* every multi-line token
MLTokens == { "\"Hello,\nworld\"", "\"a\n" \o Rep(" ", 40) \o "b\"", "\"\"\"doc\nmore\"\"\"", "\"x {1}\ny\"", "\"\n\"", "\"a\n\nb\"", "\"{1\n}\"" }
OnMultiLine == UNION { { "def g: Int := " \o tk, "print(1 + " \o tk \o ")", "def f(x: Int) => x\nf(" \o tk \o ")", "def x := " \o tk \o " )", "def x := " \o tk \o " +",
                         tk \o ".undefined_method()", "def x: Str := " \o tk \o "\ndef y: Int := x", "if " \o tk \o " then print(1)", Rep(" ", 30) \o "def g: Int := " \o tk,
                         "class A\n    def m(self) -> Int => " \o tk, "def f() -> Int => " \o tk \o "\nf()", "raise " \o tk, "for i in " \o tk \o " do print(i + 1)" } : tk \in MLTokens }
Shapes ==
   OnMultiLine \cup
   { Rep("(", n) \o "1" \o Rep(")", n) : n \in {1, 2, 4, 8, 12} }
   \cup { "def x := " \o Rep("[", n) \o "1" \o Rep("]", n) : n \in {1, 2, 4, 8, 12} }
   \cup { "def x := " \o Rep("(", n) \o "1 + " : n \in {1, 3} } \cup { Rep(")", n) : n \in {1, 3} }
   \cup { IfNest(n, 0) : n \in {1, 2, 4, 8, 12} }
   \cup { Lines(n, 1) : n \in {1, 10, 50, 100, 200} }
   \cup { "def x := 1" \o Rep(" + 1", n) : n \in {1, 10, 50, 150} }
   \cup { "def x := 1" \o Rep(" - (1", n) \o Rep(")", n) : n \in {1, 5, 12} }
   \cup { "def () := 1", "def (a, ()) := (1, 2)", "def x := ()", "def f(()) => 1", "for () in [1] do print(1)", "match 1\n    () => 1", "def ((a)) := 1",
          "def x := {}", "def x := []", "def x := [,]", "def x := (,)", "def x: () := 1", "def f() -> () => pass", "class ()", "class A()", "class A(())",
          "\"{\"", "\"}\"", "\"{{\"", "\"{}\"", "\"{1 +}\"", "\"{\"{\"{1}\"}\"}\"", "\"\\\"", "\"a\\\"b\"", "def x := \"{x}\"", "print(\"{undefined}\")", "\"{\n}\"",
          "a\rb", "\r", "\r\n\r\n", "x\r\n    y\r\n", "def x := 1\t+ 2", "\t", "def ü := 1", "# ü comment\ndef x := 1", "def x := \"ü\"\nprint(x)", "\"ü\" + 1",
          "def x := 99999999999999999999999999999999999999", "def x := 1E999999999", "def x := 007", "def x := 1.", "def x := .5", "def x := 1..2", "def x := 1E", "0x10",
          "def f(x: Int) -> Int => f(x)\nf(1)", "def f(vararg x: Int := 1) => x", "def f(vararg x: Int, vararg y: Int) => x", "def f(x: Int := ) => x",
          "class A: A", "class A: B\nclass B: A\ndef x := A()", "class Union\ndef x := Union()", "class Optional\ndef x: Optional? := None", "class Tuple", "class Callable", "class Any", "def Union() -> Int => 1", "class None", "class Int", "type T: T", "class A\n    def f(self) -> A => self\ndef x := A().f().f().f()",
          "class A(def a: A)", "class A\n    def x: A := A()", "def x: List[List[List[List[Int]]]] := []", "def x: Undefined := 1", "def x: Int[Int] := 1", "def x: List := []",
          "import", "from", "from a import", "import a as", "def", "def x", "def x :=", "class", "if", "if True", "if True then", "match", "match x\n", "while", "for", "for x in",
          "return", "return 1", "raise", "handle", "x handle", "x handle\n    err: E =>", "with", "with x", "pass\n    pass", "    pass", "\n\n\n", "", " ", "#", "##", "\"\"\"doc", "\"\"\"doc\"\"\"",
          "x.", ".x", "x..y", "x.y.z()()()", "x(", "x)", "x[", "x]", "x{", "x}", "x[1", "x[1::", "x[::]", "x[1::2::3]", "1 ..", "1 ..= ", "1 .. 2 .. ", "x ?", "? x", "x ? ? y",
          "not", "not not not True", "- - - 1", "+", "1 +", "* 2", "1 2", "x y z", "def def", "class class", "_", "_ := 1", "def _ := 1", "self", "self.x := 1", "def self := 1",
          "def x := y\ndef y := x", "def x := x", "def f() => f", "def f() -> Int => f", "\\x => x", "def g := \\x: Int => x\ng(1)", "def g := \\ => 1", "(\\x => x)(1)",
          "def x := [y | y in x]", "def x := {y => y | y in [1]}", "def x := [1, 2][5]", "def x := {1: 2}", "def x := {1 => 2}[1]", "def x := (1, 2)[0]",
          "print(", "print)", "print(print)", "print(print(1))", "input(1)(2)", "Int(\"x\")", "Int()", "Str(1, 2, 3)", "None()", "None.x", "None := 1", "True := False", "1 := 2", "f() := 1" }

\* generic inheritance graphs: classes A[T], B[U], C; each takes <= 2 parents from a pool that contains other instantiations, the same
\* class at another argument, and its own type parameter
Small(S) == {X \in SUBSET S : Cardinality(X) <= 2}
PoolA == {"B[T]", "B[Int]", "C", "A[Int]", "T"}
PoolB == {"A[U]", "A[Int]", "C", "B[Int]", "U"}
PoolC == {"A[Int]", "B[Int]", "A[C]", "B[C]"}
Order == <<"A[Int]", "A[U]", "A[C]", "B[T]", "B[Int]", "B[C]", "C", "T", "U">>
JoinSet(S) == LET seq == SelectSeq(Order, LAMBDA n : n \in S) IN
              IF Len(seq) = 0 THEN "" ELSE ": " \o (IF Len(seq) = 1 THEN seq[1] ELSE seq[1] \o ", " \o seq[2])
GGraphSrc(a, b, cc) == "class A[T]" \o JoinSet(a) \o "\nclass B[U]" \o JoinSet(b) \o "\nclass C" \o JoinSet(cc) \o "\ndef x := C()\n"

VARIABLE c
Init == CASE Family = "soup"   -> c = [fam |-> "soup", parts |-> <<>>]
          [] Family = "graphs" -> \E g \in [1..3 -> SUBSET {"A", "B", "C"}] : c = [fam |-> "graphs", src |-> GraphSrc(g)]
          [] Family = "ggraphs" -> \E a \in Small(PoolA), b \in Small(PoolB), cc \in Small(PoolC) : c = [fam |-> "ggraphs", src |-> GGraphSrc(a, b, cc)]
          [] Family = "shapes" -> \E s \in Shapes : c = [fam |-> "shapes", src |-> s]
Next == /\ Family = "soup" /\ Len(c.parts) < K
        /\ \E j \in 1..Len(Vocab) : c' = [c EXCEPT !.parts = Append(c.parts, Vocab[j])]
Emit == PrintT("@@" \o ToJson(IF Family = "soup" THEN [fam |-> "soup", src |-> Join(c.parts, 1)] ELSE c))
=====================================================================================
