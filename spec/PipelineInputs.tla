-------------------------------- MODULE PipelineInputs --------------------------------
(* C03, role R2: adversarial input families as TLA+ sets, enumerated by TLC (exhaustive and reproducible). *)
(*   soup    : every sequence of <= K spellings over a 14-token vocabulary (joined by single spaces)        *)
(*   graphs  : every inheritance digraph on 3 classes (self loops, cycles, diamonds), with a use site       *)
(*   ggraphs : inheritance graphs over GENERIC classes (other instantiations, own type parameter as parent)     *)
(*   shapes  : deep nesting, long files, empty tuples / patterns in binder positions, braces and quotes in  *)
(*             strings, lone CR, non-ASCII, tabs, huge literals                                             *)
EXTENDS Naturals, Sequences, FiniteSets, TLC, Json

CONSTANTS Family, K

Vocab == <<"def", "x", ":=", "1", "(", ")", ",", "\n", "\n    ", "if", "then", ":", "\"s\"", "class">>
RECURSIVE Join(_, _)
Join(s, j) == IF j > Len(s) THEN "" ELSE s[j] \o (IF j < Len(s) THEN " " ELSE "") \o Join(s, j + 1)
RECURSIVE Rep(_, _)
Rep(s, n) == IF n = 0 THEN "" ELSE s \o Rep(s, n - 1)
RECURSIVE Lines(_, _)
Lines(n, j) == IF j > n THEN "" ELSE "def v" \o ToString(j) \o " := " \o ToString(j) \o "\n" \o Lines(n, j + 1)
RECURSIVE IfNest(_, _)
IfNest(n, ind) == IF n = 0 THEN Rep("    ", ind) \o "print(1)\n" ELSE Rep("    ", ind) \o "if True then\n" \o IfNest(n - 1, ind + 1)

Names == <<"A", "B", "C">>
ParentsStr(S) == LET seq == SelectSeq(Names, LAMBDA n : n \in S) IN
                 IF Len(seq) = 0 THEN "" ELSE ": " \o (IF Len(seq) = 1 THEN seq[1] ELSE IF Len(seq) = 2 THEN seq[1] \o ", " \o seq[2] ELSE seq[1] \o ", " \o seq[2] \o ", " \o seq[3])
GraphSrc(g) == "class A" \o ParentsStr(g[1]) \o "\nclass B" \o ParentsStr(g[2]) \o "\nclass C" \o ParentsStr(g[3]) \o "\ndef x := A()\ndef y: B := C()\n"

\* WIDTH: tuples, parameter lists, argument lists and collections of n elements, each used where the checker expands it element by
\* element (printed, interpolated, passed on, destructured, compared) and followed by a construct that re-queues constraints
RECURSIVE Numbered(_, _, _, _)
Numbered(pre, post, n, j) == IF j > n THEN "" ELSE pre \o ToString(j) \o post \o (IF j < n THEN ", " ELSE "") \o Numbered(pre, post, n, j + 1)
Wide == UNION { LET ty == "(" \o Rep("Int, ", n - 1) \o "Int)"  mixed == "(" \o Rep("Int, Str, ", n - 1) \o "Float)"
                    lit == "(" \o Rep("1, ", n - 1) \o "1)"     names == Numbered("a", "", n, 1)
                    params == Numbered("a", ": Int", n, 1)          args == Numbered("", "", n, 1) IN
                { "def f(t: " \o ty \o ") =>\n    print(t)\n",
                  "def f(t: " \o ty \o ") =>\n    print(t)\n    if True then print(1)\n",
                  "def f(t: " \o mixed \o ") =>\n    print(t)\n    if True then print(1)\n",
                  "def f(t: " \o ty \o ") -> Str => \"{t}\"\n",
                  "def f(t: " \o ty \o ") =>\n    print(t)\nf(" \o lit \o ")\n",
                  "def t := " \o lit \o "\nprint(t)\nif True then print(1)\n",
                  "def t: " \o ty \o " := " \o lit \o "\nprint(\"{t}\")\n",
                  "def (" \o names \o ") := " \o lit \o "\nprint(a1)\n",
                  "def f(t: " \o ty \o ") =>\n    def (" \o names \o ") := t\n    print(a1 + a" \o ToString(n) \o ")\n",
                  "def f(t: " \o ty \o ", u: " \o ty \o ") -> Bool => t = u\n",
                  "def f(" \o params \o ") -> Int => a1 + a" \o ToString(n) \o "\nprint(f(" \o args \o "))\n",
                  "print(" \o args \o ")\nif True then print(1)\n",
                  "def l := [" \o args \o "]\nprint(l)\nfor x in l do print(x)\n",
                  "def s := {" \o args \o "}\nprint(s)\n",
                  "def f(x: " \o Rep("Int | ", n - 1) \o "Str) =>\n    print(x)\n    if True then print(1)\n" }
                : n \in {2, 3, 5, 8, 16, 24} }

\* diagnostics ON tokens that span lines (the end column may lie left or right of the start column): every fault template around
\* every multi-line token
MLTokens == { "\"Hello,\nworld\"", "\"a\n" \o Rep(" ", 40) \o "b\"", "\"\"\"doc\nmore\"\"\"", "\"x {1}\ny\"", "\"\n\"", "\"a\n\nb\"", "\"{1\n}\"" }
OnMultiLine == UNION { { "def g: Int := " \o tk, "print(1 + " \o tk \o ")", "def f(x: Int) => x\nf(" \o tk \o ")", "def x := " \o tk \o " )", "def x := " \o tk \o " +",
                         tk \o ".undefined_method()", "def x: Str := " \o tk \o "\ndef y: Int := x", "if " \o tk \o " then print(1)", Rep(" ", 30) \o "def g: Int := " \o tk,
                         "class A\n    def m(self) -> Int => " \o tk, "def f() -> Int => " \o tk \o "\nf()", "raise " \o tk, "for i in " \o tk \o " do print(i + 1)" } : tk \in MLTokens }
\* characters that need care inside a string literal of the TARGET language, alone and between text, in a plain and in an interpolated string
StringContents == {"\r", "\n", "\r\n", "\t", "\f", "\\n", "\\\\", "\\\"", "'", "{{", "}}", "%", "\\x41", "\\u0041", "\\N{DASH}", "ü", "\\", "\\ "}
InStrings == UNION { { "def x := \"" \o c \o "\"\nprint(x)", "def x := \"a" \o c \o "b\"\nprint(x)", "def n := 1\ndef x := \"{n}" \o c \o "b\"\nprint(x)",
                       "def n := 1\ndef x := \"a" \o c \o "{n}\"\nprint(x)", "print(\"a" \o c \o "\")", "def f() -> Str => \"" \o c \o "\"\nprint(f())" } : c \in StringContents }
\* user classes NAMED like the built-in classes, inheriting from built-in classes (the user's class replaces the built-in one)
BuiltinNames == {"Int", "Float", "Complex", "Str", "Bool", "List", "Set", "Dict", "Tuple", "Collection", "Exception", "Range", "Slice", "None", "Any", "Callable", "Generic", "Union", "Optional"}
Shadowing == { "class " \o a \o ": " \o b \o "\ndef x := 1 + 2\ndef y := [1.5, 2]\ndef z := \"s\"\nprint(x)\n" : a \in BuiltinNames, b \in BuiltinNames \ {"None", "Any", "Union", "Optional", "Callable", "Generic"} }
             \cup { "class " \o a \o "[T]: " \o b \o "[T]\ndef y := [1]\nprint(y)\n" : a \in {"Collection", "List", "Set", "Tuple"}, b \in {"Collection", "List", "Set", "Tuple"} }
\* every VALUE POSITION of the language x every form of expression that the generator may have to emit as a statement (conditionals in
\* their inline forms, nested in each other, negated, called; builders, indexing, the default operator): whatever is accepted must compile
ValueForms == { "if c then 1 else 2", "if c then 1 else if c then 2 else 3", "if c then (if c then 1 else 2) else 3", "(if c then 1 else 2)", "-(if c then 1 else 2)",
                "(if c then 1 else 2) + (if c then 3 else 4)", "if (if c then False else True) then 1 else 2", "[x | x in [1, 2]][0]", "{1 => 2}[1]", "(1, 2)[0]",
                "n ? 2", "(\\y: Int => y)(1)", "if c then n ? 1 else 2", "twice(if c then 1 else 2)", "if c then twice(1) else twice(if c then 2 else 3)" }
Prelude == "def c := True\ndef n: Int? := None\ndef twice(x: Int) -> Int => x * 2\n"
InPosition(e) == { Prelude \o "def v := " \o e \o "\nprint(v)", Prelude \o "def v: Int := " \o e \o "\nprint(v)",
                   Prelude \o "def f() -> Int =>\n    return " \o e \o "\nprint(f())", Prelude \o "def f() -> Int =>\n    " \o e \o "\nprint(f())", Prelude \o "def f() -> Int => " \o e \o "\nprint(f())",
                   Prelude \o "print(twice(" \o e \o "))", Prelude \o "def d := {1 => " \o e \o "}\nprint(d[1])", Prelude \o "def l := [" \o e \o ", 2]\nprint(l)",
                   Prelude \o "match " \o e \o "\n    1 => print(\"a\")\n    _ => print(\"b\")", Prelude \o "if (" \o e \o ") > 0 then print(\"p\")",
                   Prelude \o "def v: Int := (" \o e \o ") + 1\nprint(v)", Prelude \o "print(\"v={" \o e \o "}\")", Prelude \o "def g(x: Int := " \o e \o ") -> Int => x\nprint(g())",
                   Prelude \o "for i in 0 .. (" \o e \o ") do print(i)", Prelude \o "def t := (" \o e \o ", 1)\nprint(t)", Prelude \o "def s: Set[Int] := {" \o e \o "}\nprint(s)",
                   Prelude \o "class K(def a: Int := " \o e \o ")\nprint(K().a)", Prelude \o "def w := \\x: Int => " \o e \o "\nprint(1)", Prelude \o "def v: Int := 0\nv := " \o e \o "\nprint(v)",
                   Prelude \o "def v: Int := 0\nv += " \o e \o "\nprint(v)", Prelude \o "while (" \o e \o ") > 5 do print(1)", Prelude \o "raise Exception(\"{" \o e \o "}\")" }
BlockForms == { Prelude \o "def v := if c then\n    1\nelse\n    2\nprint(v)", Prelude \o "def v := if c then 1 else if c then\n    2\nelse\n    3\nprint(v)",
                Prelude \o "def v := if c then\n    if c then\n        1\n    else\n        2\nelse\n    3\nprint(v)", Prelude \o "def v := match 1\n    1 => 10\n    _ => 20\nprint(v)",
                Prelude \o "def v := match 1\n    1 => if c then 10 else 11\n    _ =>\n        print(\"x\")\n        20\nprint(v)",
                Prelude \o "def f() -> Int =>\n    return if c then\n        1\n    else\n        2\nprint(f())", Prelude \o "def f() -> Int =>\n    return match 1\n        1 => 10\n        _ => 20\nprint(f())",
                Prelude \o "def f() -> Int =>\n    if c then\n        1\n    else\n        match 1\n            1 => 10\n            _ => 20\nprint(f())",
                Prelude \o "def f() -> Int =>\n    return if c then 1 else if c then\n        2\n    else\n        3\nprint(f())",
                Prelude \o "def (a, b) := if c then\n    (1, 2)\nelse\n    (3, 4)\nprint(a + b)", Prelude \o "def (a, b) := match 1\n    1 => (1, 2)\n    _ => (3, 4)\nprint(a + b)" }
\* else-if chains in value position: every arm inline or as a block, the else on the line of the block's end or with a block of its own
Arm(v, form, ind) == IF form = "inline" THEN " " \o v ELSE "\n" \o ind \o "    " \o v
ElseOf(v, form, ind) == CASE form = "same-line" -> " else " \o v [] form = "own-line" -> "\n" \o ind \o "else " \o v [] form = "block" -> "\n" \o ind \o "else\n" \o ind \o "    " \o v
Chain(ind, t1, t2, e2) == "if c then" \o Arm("1", t1, ind) \o (IF t1 = "inline" THEN " else " ELSE "\n" \o ind \o "else ") \o "if c then" \o Arm("2", t2, ind) \o ElseOf("3", e2, ind)
ChainOK(t2, e2) == (e2 = "same-line") = (t2 = "inline")       \* `else` on the same line only behind an inline arm
ElseIfChains == UNION { LET t1 == q[1] t2 == q[2] e2 == q[3] IN
                        { Prelude \o "def v := " \o Chain("", t1, t2, e2) \o "\nprint(v)", Prelude \o "def v: Int := " \o Chain("", t1, t2, e2) \o "\nprint(v)",
                          Prelude \o "def f() -> Int =>\n    " \o Chain("    ", t1, t2, e2) \o "\nprint(f())", Prelude \o "def f() -> Int =>\n    return " \o Chain("    ", t1, t2, e2) \o "\nprint(f())",
                          Prelude \o "def v: Int := 0\nv := " \o Chain("", t1, t2, e2) \o "\nprint(v)" }
                        : q \in {q \in {"inline", "block"} \X {"inline", "block"} \X {"same-line", "own-line", "block"} : ChainOK(q[2], q[3])} }
ValuePositions == BlockForms \cup ElseIfChains \cup UNION { InPosition(e) : e \in ValueForms }
Shapes ==
   OnMultiLine \cup InStrings \cup Shadowing \cup ValuePositions \cup Wide \cup
   { Rep("(", n) \o "1" \o Rep(")", n) : n \in {1, 2, 4, 8, 12} }
   \cup { "def x := " \o Rep("[", n) \o "1" \o Rep("]", n) : n \in {1, 2, 4, 8, 12} }
   \cup { "def x := " \o Rep("(", n) \o "1 + " : n \in {1, 3} } \cup { Rep(")", n) : n \in {1, 3} }
   \cup { IfNest(n, 0) : n \in {1, 2, 4, 8, 12} }
   \cup { Lines(n, 1) : n \in {1, 10, 50, 100, 200} }
   \cup { "def x := 1" \o Rep(" + 1", n) : n \in {1, 10, 50, 150} }
   \cup { "def x := 1" \o Rep(" - (1", n) \o Rep(")", n) : n \in {1, 5, 12} }
   \cup { "def () := 1", "def (a, ()) := (1, 2)", "def x := ()", "def f(()) => 1", "for () in [1] do print(1)", "match 1\n    () => 1", "def ((a)) := 1",
          "def x := {}", "def x := []", "def x := [,]", "def x := (,)", "def x: () := 1", "def f() -> () => pass", "class ()", "class A()", "class A(())",
          "\"{\"", "\"}\"", "\"{{\"", "\"{}\"", "\"{1 +}\"", "\"{\"{\"{1}\"}\"}\"", "\"\\\"", "\"a\\\"b\"", "def x := \"{x}\"", "print(\"{undefined}\")", "\"{\n}\"",
          "a\rb", "\r", "\r\n\r\n", "x\r\n    y\r\n", "def x := 1\t+ 2", "\t", "def ü := 1", "# ü comment\ndef x := 1", "def x := \"ü\"\nprint(x)", "\"ü\" + 1",
          "def x := 99999999999999999999999999999999999999", "def x := 1E999999999", "def x := 007", "def x := 1.", "def x := .5", "def x := 1..2", "def x := 1E", "0x10",
          "def f(x: Int) -> Int => f(x)\nf(1)", "def f(vararg x: Int := 1) => x", "def f(vararg x: Int, vararg y: Int) => x", "def f(x: Int := ) => x",
          "class A: A", "class A: B\nclass B: A\ndef x := A()", "class Union\ndef x := Union()", "class Optional\ndef x: Optional? := None", "class Tuple", "class Callable", "class Any", "def Union() -> Int => 1", "class None", "class Int", "type T: T", "class A\n    def f(self) -> A => self\ndef x := A().f().f().f()",
          "class A(def a: A)", "class A\n    def x: A := A()", "def x: List[List[List[List[Int]]]] := []", "def x: Undefined := 1", "def x: Int[Int] := 1", "def x: List := []",
          "import", "from", "from a import", "import a as", "def", "def x", "def x :=", "class", "if", "if True", "if True then", "match", "match x\n", "while", "for", "for x in",
          "return", "return 1", "raise", "handle", "x handle", "x handle\n    err: E =>", "with", "with x", "pass\n    pass", "    pass", "\n\n\n", "", " ", "#", "##", "\"\"\"doc", "\"\"\"doc\"\"\"",
          "x.", ".x", "x..y", "x.y.z()()()", "x(", "x)", "x[", "x]", "x{", "x}", "x[1", "x[1::", "x[::]", "x[1::2::3]", "1 ..", "1 ..= ", "1 .. 2 .. ", "x ?", "? x", "x ? ? y",
          "not", "not not not True", "- - - 1", "+", "1 +", "* 2", "1 2", "x y z", "def def", "class class", "_", "_ := 1", "def _ := 1", "self", "self.x := 1", "def self := 1",
          "def x := y\ndef y := x", "def x := x", "def f() => f", "def f() -> Int => f", "\\x => x", "def g := \\x: Int => x\ng(1)", "def g := \\ => 1", "(\\x => x)(1)",
          "def x := [y | y in x]", "def x := {y => y | y in [1]}", "def x := [1, 2][5]", "def x := {1: 2}", "def x := {1 => 2}[1]", "def x := (1, 2)[0]",
          "print(", "print)", "print(print)", "print(print(1))", "input(1)(2)", "Int(\"x\")", "Int()", "Str(1, 2, 3)", "None()", "None.x", "None := 1", "True := False", "1 := 2", "f() := 1" }

\* generic inheritance graphs: classes A[T], B[U], C; each takes <= 2 parents from a pool that contains other instantiations, the same
\* class at another argument, and its own type parameter
Small(S) == {X \in SUBSET S : Cardinality(X) <= 2}
PoolA == {"B[T]", "B[Int]", "C", "A[Int]", "T"}
PoolB == {"A[U]", "A[Int]", "C", "B[Int]", "U"}
PoolC == {"A[Int]", "B[Int]", "A[C]", "B[C]"}
Order == <<"A[Int]", "A[U]", "A[C]", "B[T]", "B[Int]", "B[C]", "C", "T", "U">>
JoinSet(S) == LET seq == SelectSeq(Order, LAMBDA n : n \in S) IN
              IF Len(seq) = 0 THEN "" ELSE ": " \o (IF Len(seq) = 1 THEN seq[1] ELSE seq[1] \o ", " \o seq[2])
GGraphSrc(a, b, cc) == "class A[T]" \o JoinSet(a) \o "\nclass B[U]" \o JoinSet(b) \o "\nclass C" \o JoinSet(cc) \o "\ndef x := C()\n"

VARIABLE c
Init == CASE Family = "soup"   -> c = [fam |-> "soup", parts |-> <<>>]
          [] Family = "graphs" -> \E g \in [1..3 -> SUBSET {"A", "B", "C"}] : c = [fam |-> "graphs", src |-> GraphSrc(g)]
          [] Family = "ggraphs" -> \E a \in Small(PoolA), b \in Small(PoolB), cc \in Small(PoolC) : c = [fam |-> "ggraphs", src |-> GGraphSrc(a, b, cc)]
          [] Family = "shapes" -> \E s \in Shapes : c = [fam |-> "shapes", src |-> s]
Next == /\ Family = "soup" /\ Len(c.parts) < K
        /\ \E j \in 1..Len(Vocab) : c' = [c EXCEPT !.parts = Append(c.parts, Vocab[j])]
Emit == PrintT("@@" \o ToJson(IF Family = "soup" THEN [fam |-> "soup", src |-> Join(c.parts, 1)] ELSE c))
=====================================================================================
