INIT Init
NEXT Next
CONSTANTS P = 6
 L = 3
INVARIANT Pure
INVARIANT Emit
CHECK_DEADLOCK FALSE
