---------------------------------- MODULE MambaStatic ----------------------------------
(* The static rules the language documents, stated as the property sentences read (C05-C09), over the   *)
(* parameters of a probe: declared signatures, the types of the expressions supplied, mutability of a    *)
(* binding, the declared / handled exception sets, whether a name is defined on every path.              *)
(* Each rule yields the verdict the compiler must give for the probe built from those parameters;        *)
(* MambaSyntax.Plug puts the probe under every context, which must not change the verdict.               *)
EXTENDS MambaSyntax

----------------------------------------------------------------------------------------
\* core type universe: primitives with the documented chain Int <: Float <: Complex, user classes A; B: A; C; D: B
Prims   == {"Int", "Float", "Str", "Bool"}
Classes == {"A", "B", "C", "D"}
Tys     == Prims \cup Classes
ParentOf == [A |-> {}, B |-> {"A"}, C |-> {}, D |-> {"B"}]
RECURSIVE AncOrSelf(_)
AncOrSelf(c) == {c} \cup UNION {AncOrSelf(p) : p \in ParentOf[c]}

\* t may be used where u is expected (non-nullable types)
Sub(u, t) == \/ u = t
             \/ u = "Any"
             \/ t = "Int" /\ u \in {"Float", "Complex"}
             \/ t = "Float" /\ u = "Complex"
             \/ t \in Classes /\ u \in Classes /\ u \in AncOrSelf(t)

\* nullable-aware: a type is [b |-> base, q |-> nullable]; the value None has type [b |-> "None", q |-> TRUE]
NT(b, q) == [b |-> b, q |-> q]
NoneT == NT("None", TRUE)
SubN(u, t) == IF t.b = "None" THEN u.q ELSE (u.q \/ ~t.q) /\ Sub(u.b, t.b)
\* ("Pair" is the tuple type (Int, Int): only used as the type of an ARGUMENT that arrives at a parameter of another type)
BaseStr(b) == IF b = "Pair" THEN "(Int, Int)" ELSE b
TyStr(t) == IF t.q THEN BaseStr(t.b) \o "?" ELSE BaseStr(t.b)

ClassDecls == << Class("A", <<>>, <<>>, <<>>, <<>>), Class("B", <<>>, <<Parent("A", <<>>)>>, <<>>, <<>>),
                 Class("C", <<>>, <<>>, <<>>, <<>>), Class("D", <<>>, <<Parent("B", <<>>)>>, <<>>, <<>>) >>

\* canonical expressions of a type: literal / constructor call, or a variable defined in the setup
Lit(ty) == CASE ty = "Pair" -> TupL(<<IntL(1), IntL(2)>>) [] ty = "K" -> New("K", <<>>) [] ty = "Int" -> IntL(1) [] ty = "Float" -> FloatL("1.5") [] ty = "Str" -> StrL("s") [] ty = "Bool" -> BoolL(TRUE)
             [] ty = "None" -> NoneL [] ty \in Classes -> New(ty, <<>>)
VarName(t) == (IF t.q THEN "n_" ELSE "v_") \o t.b
VarOf(t)   == Var(VarName(t))
\* setup statement defining the variable of type t (nullable variables hold a value, so that accepted programs run)
VarSetup(t) == Def(VarName(t), TRUE, TyStr(t), Lit(t.b))
\* an expression of (static) type t in form "lit" or "var", with the setup it needs
\* forms: "lit", "var", and compound expressions of the same static type: "ife" (conditional expression of two literals),
\* "neg" (negated literal; numeric types only, else the literal), "grp" (the literal in parentheses - the renderer parenthesises operands)
AtomE(t, form) == IF form \in {"ife", "neg", "grp"} /\ ~t.q /\ t.b # "None"
                  THEN (CASE form = "ife" -> IfE(BoolL(TRUE), Lit(t.b), Lit(t.b))
                          [] form = "neg" -> IF t.b \in {"Int", "Float"} THEN Neg(Lit(t.b)) ELSE Lit(t.b)
                          [] form = "grp" -> IF t.b = "Int" THEN Bin("+", Lit(t.b), Lit(t.b)) ELSE IF t.b = "Str" THEN Bin("+", Lit(t.b), Lit(t.b)) ELSE Lit(t.b))
                  ELSE IF form \in {"lit", "ife", "neg", "grp"} /\ ~t.q THEN Lit(t.b) ELSE IF t.b = "None" THEN NoneL ELSE VarOf(t)
AtomSetup(t, form) == IF (form \in {"lit", "ife", "neg", "grp"} /\ ~t.q) \/ t.b = "None" THEN <<>> ELSE <<VarSetup(t)>>

Verdict(ok) == IF ok THEN "accept" ELSE "reject"

----------------------------------------------------------------------------------------
\* C05 rules.  A signature is a sequence of [ty |-> base type, d |-> has default]; args a sequence of base types.
ArityOK(sig, args) == Len(args) <= Len(sig) /\ \A j \in 1..Len(sig) : j > Len(args) => sig[j].d
ArgsOK(sig, args)  == \A j \in 1..Len(args) : j <= Len(sig) => Sub(sig[j].ty, args[j])
CallOK(sig, args)  == ArityOK(sig, args) /\ ArgsOK(sig, args)
ReturnOK(declared, actual) == Sub(declared, actual)
InitOK(declared, actual)   == Sub(declared, actual)

\* C07 rule: a write reaches a binding; it is accepted iff that binding is defined and mutable and every receiver on the
\* way to it is mutable
WriteOK(defined, mutable, recvMutable) == defined /\ mutable /\ recvMutable

\* C08 rules.  Exception hierarchy of the probes; R raised, D declared by the enclosing function, H handled around it.
ExcParent == [E1 |-> {"Exception"}, E1a |-> {"E1"}, E1b |-> {"E1a"}, E2 |-> {"Exception"}, Exception |-> {}, NotExc |-> {}]
RECURSIVE ExcAnc(_)
ExcAnc(c) == {c} \cup UNION {ExcAnc(p) : p \in ExcParent[c]}
RaisesOK(R, D, H) == \E x \in D \cup H : x \in ExcAnc(R)
\* a call to a callee that declares the sequence RS: every one of them has to be covered
RaisesAllOK(RS, D, H) == \A j \in 1..Len(RS) : RaisesOK(RS[j], D, H)
DeclarableOK(d) == "Exception" \in ExcAnc(d)
=====================================================================================
