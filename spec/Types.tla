------------------------------------ MODULE Types ------------------------------------
(* C20: the checker's "may be used where" relation on types.                                           *)
(*                                                                                                      *)
(* A type is a union of members: [ms |-> {member}], member = [n |-> class name, g |-> <<type,...>>,      *)
(* q |-> nullable].  The class table (names, generic arity, direct parents) is that of the default      *)
(* context plus a user hierarchy of depth 3 with multiple parents.                                      *)
(* Sub(U, T) is the property sentence as a definition ("T may be used where U is expected"); Laws(R,..)  *)
(* are the order laws stated on an arbitrary relation R so that they can be checked on the table        *)
(* recorded from the real code (TypesTable.tla) and on Sub itself (MC_Types.tla).                       *)
EXTENDS Naturals, Sequences, FiniteSets, TLC

\* user hierarchy: A; B: A; C: B; D: A; M: B, D; E unrelated        (source text in UserSource)
UserSource == "class A\nclass B: A\nclass C: B\nclass D: A\nclass M: B, D\nclass E\n"
Parents == [ A |-> {}, B |-> {"A"}, C |-> {"B"}, D |-> {"A"}, M |-> {"B", "D"}, E |-> {},
             Int |-> {"Float"}, Float |-> {"Complex"}, Complex |-> {}, Str |-> {}, Bool |-> {}, None |-> {}, Any |-> {},
             Exception |-> {}, Range |-> {}, Slice |-> {},
             List |-> {"Collection"}, Set |-> {"Collection"}, Tuple |-> {"Collection"}, Collection |-> {}, Dict |-> {} ]
Plain0 == {"A", "B", "C", "D", "M", "E", "Int", "Float", "Complex", "Str", "Bool", "None", "Any", "Exception", "Range", "Slice"}

RECURSIVE AncOrSelf(_)
AncOrSelf(c) == {c} \cup UNION {AncOrSelf(p) : p \in Parents[c]}

Mem(n, g, q) == [n |-> n, g |-> g, q |-> q]
Ty(ms) == [ms |-> ms]
P(n)  == Ty({Mem(n, <<>>, FALSE)})                  \* plain class type
Q(n)  == Ty({Mem(n, <<>>, TRUE)})                   \* nullable class type
G1(n, a) == Ty({Mem(n, <<a>>, FALSE)})
G2(n, a, b) == Ty({Mem(n, <<a, b>>, FALSE)})
U2(a, b) == Ty(a.ms \cup b.ms)

----------------------------------------------------------------------------------------
\* the finite universe
Plains    == {P(n) : n \in Plain0}
Nullables == {Q(n) : n \in Plain0 \ {"None"}}
Args      == {P("Int"), P("Float"), P("Str"), P("A"), P("B"), Q("Int")}
Gen1      == {G1(n, a) : n \in {"List", "Set", "Collection"}, a \in Args}
             \cup {G2("Dict", k, v) : k \in {P("Str"), P("Int")}, v \in {P("Int"), P("Float"), P("A"), P("B")}}
             \cup {G2("Tuple", a, b) : a \in {P("Int"), P("Float"), P("Str")}, b \in {P("Int"), P("Float"), P("Str")}}
             \cup {G1("Tuple", P("Int"))}
Gen2      == {G1("List", G1("List", P("Int"))), G1("List", G1("List", P("Float"))), G1("List", G1("Set", P("Int"))),
              G1("Set", G2("Tuple", P("Int"), P("Str"))), G2("Dict", P("Str"), G1("List", P("Int"))),
              G1("List", U2(P("Int"), P("Str"))), G1("List", U2(P("Str"), P("Int"))), G1("List", Q("A")),
              G2("Tuple", G1("List", P("Int")), P("Str"))}
UnionBase == Plains \cup {G1("List", P("Int")), G1("List", P("Float")), G1("Set", P("Str")), Q("Int"), Q("A"), Q("B")}
Unions    == {U2(a, b) : a \in UnionBase, b \in UnionBase}
UniverseFull  == Plains \cup Nullables \cup Gen1 \cup Gen2 \cup Unions
\* a smaller universe for the quick tier: unions over plain classes only
UniverseSmall == Plains \cup Nullables \cup Gen1 \cup Gen2
                 \cup {U2(a, b) : a \in Plains, b \in {P("Int"), P("Str"), P("A"), P("C"), P("None"), P("E"), P("Float")}}
                 \* unions of MIXED nullability (they only arise from written annotations: union formation makes all members nullable)
                 \cup {U2(Q("A"), P("C")), U2(Q("A"), P("Int")), U2(Q("Int"), P("Str")), U2(Q("B"), P("A")), U2(Q("Float"), P("A"))}

----------------------------------------------------------------------------------------
\* the property sentence as a definition
RECURSIVE Sub(_, _)
\* class instance s accepts class instance m (ignoring nullability)
VSub(s, m) ==
    \/ s.n = "Any"
    \/ /\ s.n \in AncOrSelf(m.n)
       /\ \/ Len(s.g) = 0 /\ Len(m.g) = 0
          \/ s.n = m.n /\ Len(s.g) = Len(m.g) /\ \A j \in 1..Len(s.g) : Sub(s.g[j], m.g[j])
          \/ s.n = "Collection" /\ m.n \in {"List", "Set"} /\ Sub(s.g[1], m.g[1])
MSub(s, m) == \/ s.q /\ m.n = "None"
              \/ (s.q \/ ~m.q) /\ VSub(s, m)
Sub(U, T) == \A m \in T.ms : \E s \in U.ms : MSub(s, m)

----------------------------------------------------------------------------------------
\* Laws on a relation R over a sequence of types `tys` (R[i][j] = 1 iff tys[j] may be used where tys[i] is expected).
Idx(tys, t) == CHOOSE i \in 1..Len(tys) : tys[i] = t
Has(tys, t) == \E i \in 1..Len(tys) : tys[i] = t
Holds(R, i, j) == R[i][j] = 1
IsPlain(t) == Cardinality(t.ms) = 1 /\ \A m \in t.ms : ~m.q
NonNullable(t) == \A m \in t.ms : ~m.q /\ m.n # "None"
NameOf(t) == (CHOOSE m \in t.ms : TRUE).n
IsClass0(t) == IsPlain(t) /\ \A m \in t.ms : Len(m.g) = 0

Total(R, tys)   == \A i, j \in 1..Len(tys) : R[i][j] \in {0, 1}
Refl(R, tys, i) == Holds(R, i, i)
Trans(R, tys, i) == \A j, k \in 1..Len(tys) : Holds(R, i, j) /\ Holds(R, j, k) => Holds(R, i, k)
AnyTop(R, tys, i) == NonNullable(tys[i]) => Holds(R, Idx(tys, P("Any")), i)
NullableRules(R, tys, i) ==
    IsClass0(tys[i]) /\ NameOf(tys[i]) \notin {"None"} /\ Has(tys, Q(NameOf(tys[i]))) =>
        LET q == Idx(tys, Q(NameOf(tys[i]))) IN
        /\ Holds(R, q, i)                               \* T  usable as T?
        /\ Holds(R, q, Idx(tys, P("None")))             \* None usable as T?
        /\ (NameOf(tys[i]) # "Any" => ~Holds(R, i, q))  \* T? not usable as T
        /\ ~Holds(R, i, Idx(tys, P("None")))            \* None not usable as T  (T # None)
           \/ NameOf(tys[i]) = "Any"
AncestorsOnly(R, tys, i) ==
    IsClass0(tys[i]) => \A j \in 1..Len(tys) :
        IsClass0(tys[j]) /\ NameOf(tys[j]) # "Any" => (Holds(R, j, i) <=> NameOf(tys[j]) \in AncOrSelf(NameOf(tys[i])))
\* for a union u = a | b present with both parts: u is below x iff each part is; u accepts both parts
UnionLaws(R, tys, i) ==
    Cardinality(tys[i].ms) = 2 =>
        \A m1, m2 \in tys[i].ms : m1 # m2 /\ Has(tys, Ty({m1})) /\ Has(tys, Ty({m2})) =>
            LET a == Idx(tys, Ty({m1})) b == Idx(tys, Ty({m2})) IN
            /\ Holds(R, i, a) /\ Holds(R, i, b)
            /\ \A x \in 1..Len(tys) : Holds(R, x, i) <=> (Holds(R, x, a) /\ Holds(R, x, b))

\* generic instantiations: C[a1..an] may only be used as C[b1..bn] if every ai may be used as bi ("not assignable to unrelated
\* classes" for instantiations); checked where both instantiations and all their arguments are in the universe
OneMem(t) == CHOOSE m \in t.ms : TRUE
GenericArgsRelated(R, tys, i) ==
    IsPlain(tys[i]) /\ Len(OneMem(tys[i]).g) > 0 => \A j \in 1..Len(tys) :
        (IsPlain(tys[j]) /\ OneMem(tys[j]).n = OneMem(tys[i]).n /\ Len(OneMem(tys[j]).g) = Len(OneMem(tys[i]).g) /\ Holds(R, i, j)) =>
            \A a \in 1..Len(OneMem(tys[i]).g) :
                (Has(tys, OneMem(tys[i]).g[a]) /\ Has(tys, OneMem(tys[j]).g[a])) => Holds(R, Idx(tys, OneMem(tys[i]).g[a]), Idx(tys, OneMem(tys[j]).g[a]))

LawNames == <<"reflexive", "transitive", "any-top", "nullable-rules", "ancestors-only", "union-laws", "generic-arguments-related">>
Law(n, R, tys, i) == CASE n = 1 -> Refl(R, tys, i) [] n = 2 -> Trans(R, tys, i) [] n = 3 -> AnyTop(R, tys, i)
                       [] n = 4 -> NullableRules(R, tys, i) [] n = 5 -> AncestorsOnly(R, tys, i) [] n = 6 -> UnionLaws(R, tys, i) [] n = 7 -> GenericArgsRelated(R, tys, i)
=====================================================================================
