------------------------------------- MODULE MC_C15 -------------------------------------
(* C15, role R2: programs with constructs whose scoping works on names (`with` resources and aliases, shadowing, binders), so that   *)
(* renamings which make one user name a prefix of another, or equal to a name the compiler uses itself, have something to bite on.   *)
EXTENDS MambaStatic, Json
CONSTANTS Depth, Part
I(n) == IntL(n)
V(n) == Var(n)
Report == Fun("report", <<Param("x", "Int", Absent)>>, "", <<>>, <<PrintS(FStr(<<StrL("value "), V("x")>>))>>)
Body(uses) == [j \in 1..Len(uses) |-> Expr(Call("report", <<V(uses[j])>>))]
Programs == {
   <<"with-alias",        <<Report, Def("res", TRUE, "", I(10)), Def("total", TRUE, "", I(3)), With("res", "link", "Int", Body(<<"link", "total">>))>>>>,
   <<"with-no-alias",     <<Report, Def("res", TRUE, "", I(10)), Def("total", TRUE, "", I(3)), With("res", "", "", Body(<<"res", "total">>))>>>>,
   <<"with-nested",       <<Report, Def("res", TRUE, "", I(10)), Def("other", TRUE, "", I(4)), Def("total", TRUE, "", I(3)),
                            With("res", "link", "Int", <<With("other", "inner", "Int", Body(<<"link", "inner", "total">>))>>)>>>>,
   <<"with-in-function",  <<Report, Fun("work", <<Param("res", "Int", Absent), Param("total", "Int", Absent)>>, "", <<>>, <<With("res", "link", "Int", Body(<<"link", "total">>))>>),
                            Expr(Call("work", <<I(1), I(2)>>))>>>>,
   <<"with-in-method",    <<Report, Class("Box", <<>>, <<>>, <<Def("held", TRUE, "Int", I(5))>>,
                                          <<Method("open", TRUE, <<Param("res", "Int", Absent)>>, "", <<>>, <<With("res", "link", "Int", <<Expr(Call("report", <<Field(V("self"), "held")>>)), Expr(Call("report", <<V("link")>>))>>)>>)>>),
                            Expr(MCall(New("Box", <<>>), "open", <<I(1)>>))>>>>,
   <<"shadow-and-binders", <<Report, Def("item", TRUE, "", I(1)), Def("items", TRUE, "", ListL(<<I(1), I(2)>>)), For("it", V("items"), <<Expr(Call("report", <<V("it")>>))>>),
                             Match(V("item"), <<Arm(Var("n"), <<Expr(Call("report", <<V("n")>>))>>)>>), Def("item", TRUE, "", I(2)), Expr(Call("report", <<V("item")>>))>>>> }
\* SIBLING SCOPES: every variable of these programs is bound in a scope of its own (a parameter of one function, the variable of one
\* loop, the binder of one arm ...), no scope encloses another one's binding, and the bindings have DIFFERENT types.  Giving two of them
\* the same name (spec/Rename.tla MergePairs) is the inverse of renaming one binding to a fresh name: verdict and output do not change.
Sibling == {
   <<"sibling-scopes", <<Report, Fun("show", <<Param("item", "Str", Absent)>>, "", <<>>, <<PrintS(V("item"))>>),
                         Fun("twice", <<Param("num", "Int", Absent)>>, "Int", <<>>, <<Expr(Bin("*", V("num"), I(2)))>>),
                         Fun("flag", <<>>, "Bool", <<>>, <<Def("loc", TRUE, "Bool", BoolL(TRUE)), PrintS(V("loc")), Expr(V("loc"))>>),
                         For("k", ListL(<<I(1), I(2), I(3)>>), <<Expr(Call("report", <<V("k")>>))>>),
                         For("w", ListL(<<StrL("a"), StrL("b")>>), <<Expr(Call("show", <<V("w")>>))>>),
                         Match(I(4), <<Arm(Var("m"), <<Expr(Call("report", <<V("m")>>))>>)>>),
                         Expr(Call("show", <<StrL("z")>>)), PrintS(Call("twice", <<I(2)>>)), PrintS(Call("flag", <<>>))>>>> }
Cases == { [prop |-> "C15", kind |-> p[1], ctx |-> <<>>, hoist |-> FALSE, prog |-> Prog(p[2])] : p \in Sibling } \cup
         { [prop |-> "C15", kind |-> p[1], ctx |-> <<>>, hoist |-> FALSE, prog |-> Prog(p[2])] : p \in Programs }
VARIABLE c
Init == c \in Cases
Next == UNCHANGED c
Emit == PrintT("@@" \o ToJson(c))
=====================================================================================
