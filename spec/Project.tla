------------------------------------ MODULE Project ------------------------------------
(* C13: projects.  A project is a sequence of files; a file is characterised by what matters to the         *)
(* property: its relative path, whether it uses the class / function defined in another file, and which      *)
(* single fault it carries (none | lex | syntax | type).  Expected(p) is what transpiling the directory must  *)
(* do, as the property states it:                                                                            *)
(*   - no fault anywhere : exactly one .py per .mamba at the same relative path, nothing else;               *)
(*   - otherwise         : no Python at all; the diagnostics name exactly the faulty files of the first      *)
(*                         failing phase (every file is parsed before anything is checked, so lexical and    *)
(*                         syntax faults hide type faults).                                                  *)
(* Order independence, non-interference and re-run stability are stated on Expected in MC_Project.tla (R1)   *)
(* and on the recorded runs in ProjectJudge.tla (R3).                                                        *)
EXTENDS Naturals, Sequences, FiniteSets, TLC

\* the pool has a module beside a package of the same name (d.mamba, d/), a sibling directory whose name extends another one with a
\* character that sorts before the separator (d-x/ next to d/), two files in one directory and the same base name in two directories:
\* orders of whole path strings and of path components differ on it; the nested file has the extension's spelling inside a directory
\* name and inside its own name (only the LAST extension of the file name becomes .py)
Paths    == <<"a.mamba", "d/b.mamba", "d/e.mamba.d/c.mamba.mamba", "d.mamba", "d/y.mamba", "d-x/b.mamba">>
PyPaths  == <<"a.py", "d/b.py", "d/e.mamba.d/c.mamba.py", "d.py", "d/y.py", "d-x/b.py">>
SrcPaths == <<"src/a.mamba", "src/d/b.mamba", "src/d/e.mamba.d/c.mamba.mamba", "src/d.mamba", "src/d/y.mamba", "src/d-x/b.mamba">>
ParseFaults == {"lex", "syntax"}

File(path, uses, fault) == [path |-> path, uses |-> uses, fault |-> fault]      \* path: index into Paths
FaultyAt(p, stage) == {j \in 1..Len(p) : IF stage = "parse" THEN p[j].fault \in ParseFaults ELSE p[j].fault = "type"}
\* uses = "inherit": the class of the file inherits from the class of the next INHERITING file (cyclically; a single inheriting file
\* inherits from the class of the next file): two or more inheriting files form an inheritance cycle that closes ACROSS files - an
\* error of the context stage that no file shows on its own
Inheriting(p) == {j \in 1..Len(p) : p[j].uses = "inherit"}
Cycle(p) == \E a, b \in Inheriting(p) : a # b
FirstFailingStage(p) == IF FaultyAt(p, "parse") # {} THEN "parse" ELSE IF Cycle(p) THEN "context" ELSE IF FaultyAt(p, "check") # {} THEN "check" ELSE "none"
Expected(p) ==
    LET st == FirstFailingStage(p) IN
    [ ok |-> st = "none",
      tree |-> IF st = "none" THEN {p[j].path : j \in 1..Len(p)} ELSE {},
      blamed |-> IF st = "none" THEN {} ELSE IF st = "context" THEN {p[j].path : j \in Inheriting(p)} ELSE {p[j].path : j \in FaultyAt(p, st)} ]
=====================================================================================
