------------------------------------- MODULE APIJudge -------------------------------------
(* C17, role R3: [prog, off / on |-> [acc, parses, api |-> entries read off the emitted module's AST, probe |-> the positional   *)
(* and keyword probe calls ran]].                                                                                               *)
EXTENDS MambaAPI, Json, IOUtils
Rec == ndJsonDeserialize(IOEnv.TRACE)
One(o, m) == IF ~m.acc THEN "skip:rejected" ELSE IF ~m.parses THEN "violation:emitted-module-is-not-python"      \* then nothing it defines exists for a caller
             ELSE IF ~SameAPI(o.prog, m.api) THEN "violation:python-api-differs-from-the-mamba-definitions"
             ELSE IF ~m.probe THEN "violation:definition-not-callable-as-its-signature-reads"
             ELSE "ok"
Judge(o) == LET a == One(o, o.off) b == One(o, o.on) IN IF a # "ok" THEN a ELSE b
VARIABLE r
Init == r \in 1..Len(Rec)
Next == UNCHANGED r
Report == PrintT("@@" \o ToJson([id |-> Rec[r].id, v |-> Judge(Rec[r]), expected |-> Signatures(Rec[r].prog)]))
=====================================================================================
