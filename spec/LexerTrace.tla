--------------------------------- MODULE LexerTrace ---------------------------------
(* C18, role R3: trace validation of token streams recorded from the REAL lexer against the *abstract*  *)
(* lexer.  The abstract lexer knows nothing about carets, widths or indentation counters; it is the     *)
(* property sentence turned into a machine:                                                              *)
(*   - it walks the source characters with a cursor whose TRUE position (line, column) is obtained by    *)
(*     counting line breaks, never from token widths;                                                    *)
(*   - a visible token may be emitted iff only blanks lie between the cursor and the token's recorded    *)
(*     start, the characters there are exactly the token's spelling, and the recorded end is the true    *)
(*     position just behind its last character (so spans are exact, ordered, non-overlapping and lines   *)
(*     cannot drift - also behind empty, multi-line and interpolated strings and doc-strings);           *)
(*   - Indent/Dedent move a depth that may never become negative; NL is structural;                      *)
(*   - Eof may be emitted once, last, with depth 0 and only blanks left in the source;                   *)
(*   - tokens of interpolated expressions inside a string lie inside the string at their exact place;   *)
(*   - Canonical: re-lexing the canonical spelling of the stream gives the same kinds.                   *)
(* One record of IOEnv.TRACE = one input; one TLC initial state per record; one step per token.          *)
EXTENDS Naturals, Sequences, FiniteSets, TLC, Json, IOUtils

Rec == ndJsonDeserialize(IOEnv.TRACE)

VARIABLES r,        \* index of the record being validated
          k,        \* tokens consumed so far
          cur,      \* index (1-based) of the first source character not yet covered
          ln, cl,   \* TRUE position of cur (counted, not taken from the lexer)
          depth,    \* open indentation levels
          v         \* "run" | "ok" | "skip:<why>" | "violation:<clause>"
vars == <<r, k, cur, ln, cl, depth, v>>

Structural == {"NL", "Indent", "Dedent", "Eof"}
Blank(ch) == ch \in {" ", "\n", "\r"}

Chars == Rec[r].chars
Toks  == Rec[r].toks

\* true position after walking over character ch from (l, c)
AfterL(ch, l, c) == IF ch = "\n" THEN l + 1 ELSE l
AfterC(ch, l, c) == IF ch = "\n" THEN 1 ELSE c + 1

\* Skip blanks from index i (true position l,c) until the true position equals (tl,tc).
\* Result: index reached, or 0 when a non-blank character or the end of input is in the way.
RECURSIVE Seek(_, _, _, _, _, _)
Seek(chars, i, l, c, tl, tc) ==
    IF l = tl /\ c = tc THEN i
    ELSE IF i > Len(chars) \/ ~Blank(chars[i]) THEN 0
    ELSE Seek(chars, i + 1, AfterL(chars[i], l, c), AfterC(chars[i], l, c), tl, tc)

\* same walk, but over arbitrary characters (used inside strings, for interpolated tokens)
RECURSIVE SeekAny(_, _, _, _, _, _, _)
SeekAny(chars, i, hi, l, c, tl, tc) ==
    IF l = tl /\ c = tc THEN i
    ELSE IF i > hi THEN 0
    ELSE SeekAny(chars, i + 1, hi, AfterL(chars[i], l, c), AfterC(chars[i], l, c), tl, tc)

Matches(chars, b, lx) == /\ b + Len(lx) - 1 <= Len(chars)
                         /\ \A j \in 1..Len(lx) : chars[b + j - 1] = lx[j]

NLs(lx) == {j \in 1..Len(lx) : lx[j] = "\n"}
MaxOf(S) == CHOOSE x \in S : \A y \in S : y <= x
EndL(lx, l) == l + Cardinality(NLs(lx))
EndC(lx, c) == IF NLs(lx) = {} THEN c + Len(lx) ELSE Len(lx) - MaxOf(NLs(lx)) + 1

\* every visible token of an interpolated expression sits, exactly, inside its string token [b, b+len)
InnerOk(chars, b, l, c, t) ==
    \A g \in 1..Len(t.inner) : \A j \in 1..Len(t.inner[g]) :
        LET u == t.inner[g][j] IN
        u.k \in Structural \/
           LET p == SeekAny(chars, b, b + Len(t.lx) - 1, l, c, u.sl, u.sc) IN
           /\ p # 0
           /\ p + Len(u.lx) <= b + Len(t.lx)
           /\ Matches(chars, p, u.lx)

RestBlank(chars, i) == \A j \in i..Len(chars) : Blank(chars[j])

Init == /\ r \in 1..Len(Rec)
        /\ k = 0 /\ cur = 1 /\ ln = 1 /\ cl = 1 /\ depth = 0
        /\ v = IF ~Rec[r].ok THEN "skip:rejected"
               ELSE IF ~Rec[r].ascii THEN "skip:nonascii"
               ELSE "run"

Fail(why) == v' = "violation:" \o why /\ UNCHANGED <<r, k, cur, ln, cl, depth>>

EmitVisible(t) ==
    LET b == Seek(Chars, cur, ln, cl, t.sl, t.sc) IN
    IF b = 0 THEN Fail("start-not-exact")
    ELSE IF ~Matches(Chars, b, t.lx) THEN Fail("span-does-not-cover-spelling")
    ELSE IF ~(t.el = EndL(t.lx, t.sl) /\ t.ec = EndC(t.lx, t.sc)) THEN Fail("end-not-exact")
    ELSE IF ~InnerOk(Chars, b, t.sl, t.sc, t) THEN Fail("interpolated-token-misplaced")
    ELSE /\ cur' = b + Len(t.lx) /\ ln' = t.el /\ cl' = t.ec
         /\ k' = k + 1 /\ UNCHANGED <<r, depth, v>>

EmitStructural(t) ==
    CASE t.k = "Indent" -> /\ depth' = depth + 1 /\ k' = k + 1 /\ UNCHANGED <<r, cur, ln, cl, v>>
      [] t.k = "Dedent" -> IF depth = 0 THEN Fail("dedent-without-indent")
                           ELSE /\ depth' = depth - 1 /\ k' = k + 1 /\ UNCHANGED <<r, cur, ln, cl, v>>
      [] t.k = "NL"     -> /\ k' = k + 1 /\ UNCHANGED <<r, cur, ln, cl, depth, v>>
      [] t.k = "Eof"    -> IF k + 1 # Len(Toks) THEN Fail("eof-not-last")
                           ELSE IF depth # 0 THEN Fail("indent-without-dedent")
                           ELSE IF ~RestBlank(Chars, cur) THEN Fail("characters-not-covered")
                           ELSE IF (t.sl < ln) \/ (t.sl = ln /\ t.sc < cl) THEN Fail("eof-before-last-token")
                           ELSE /\ k' = k + 1 /\ UNCHANGED <<r, cur, ln, cl, depth, v>>

Emit == /\ v = "run" /\ k < Len(Toks)
        /\ LET t == Toks[k + 1] IN IF t.k \in Structural THEN EmitStructural(t) ELSE EmitVisible(t)

Finish == /\ v = "run" /\ k = Len(Toks)
          /\ v' = IF Len(Toks) = 0 \/ Toks[Len(Toks)].k # "Eof" THEN "violation:no-eof"
                  ELSE IF Rec[r].relex # Rec[r].kinds THEN "violation:canonical-respelling-lexes-differently"
                  ELSE "ok"
          /\ UNCHANGED <<r, k, cur, ln, cl, depth>>

Next == Emit \/ Finish
Spec == Init /\ [][Next]_vars

\* Reporting: one line per record when its verdict is final (v never changes again).
Report == v # "run" => PrintT("@@" \o ToJson([id |-> Rec[r].id, v |-> v, k |-> k]))
=====================================================================================
