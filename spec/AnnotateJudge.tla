--------------------------------- MODULE AnnotateJudge ---------------------------------
(* C11, role R3: the annotate option is semantically inert.  One record per input:                       *)
(*   off / on : [acc |-> accepted?, parses |-> CPython parsed the output?, erased |-> digest of the         *)
(*               normalised Python AST after erasing annotations (py/erase.py)]                            *)
(* Accept iff the verdicts are equal and, on success, the erased programs are the same program.            *)
EXTENDS Naturals, Sequences, TLC, Json, IOUtils

Rec == ndJsonDeserialize(IOEnv.TRACE)
Judge(o) == IF o.off.panic \/ o.on.panic THEN "skip:panic"
            ELSE IF o.off.acc # o.on.acc THEN "violation:verdict-depends-on-annotate"
            ELSE IF ~o.off.acc THEN "ok:rejected-both"
            ELSE IF ~o.off.parses /\ ~o.on.parses THEN "skip:output-does-not-parse"          \* C02's business
            ELSE IF o.off.parses # o.on.parses THEN "violation:only-one-of-the-outputs-is-python"    \* then they are not the same program
            ELSE IF o.off.erased # o.on.erased THEN "violation:outputs-differ-beyond-annotations"
            ELSE "ok"
VARIABLE r
Init == r \in 1..Len(Rec)
Next == UNCHANGED r
Report == PrintT("@@" \o ToJson([id |-> Rec[r].id, v |-> Judge(Rec[r])]))
=====================================================================================
