----------------------------------- MODULE MC_C05 -----------------------------------
(* C05: declared signatures are enforced; conforming uses pass, single-point non-conforming uses are     *)
(* rejected - at every position.  Family: for each use kind (function call, method call, constructor     *)
(* call, return, annotated initialiser) a conforming variant and its single-point mutations (too few /   *)
(* too many arguments with and without defaults, each argument replaced by every other core type,        *)
(* result used at another type, body / explicit return of another type), plugged under every context of  *)
(* depth <= Depth, with the setup inside or hoisted.  The expected verdict is MambaStatic's rule.        *)
EXTENDS MambaStatic, Json

CONSTANTS Depth,       \* nesting depth of contexts
          Part         \* which kinds this run enumerates: "call" | "method" | "ctor" | "return" | "init"

P(ty, d) == [ty |-> ty, d |-> d]
Sigs == { <<P("Int", FALSE)>>,
          <<P("Int", FALSE), P("Str", TRUE)>>,
          <<P("Float", FALSE), P("A", FALSE)>>,
          <<P("B", TRUE)>>,
          <<>> }
Conforming(sig) == [j \in 1..Len(sig) |-> sig[j].ty]
Replace(s, j, x) == [s EXCEPT ![j] = x]
ArgVariants(sig) ==
    LET c == Conforming(sig) IN
       {c}
  \cup {SubSeq(c, 1, n) : n \in 0..Len(c)}                          \* too few (ok iff the rest has defaults)
  \cup {Append(c, "Int")}                                            \* too many
  \cup {Replace(c, j, t) : j \in 1..Len(c), t \in Tys \cup {"Pair"}}   \* each argument at every other type (and subtypes), and a tuple

ParamsOf(sig) == [j \in 1..Len(sig) |-> Param("p" \o ToString(j), sig[j].ty, IF sig[j].d THEN Lit(sig[j].ty) ELSE Absent)]
CArgsOf(sig)  == [j \in 1..Len(sig) |-> CArg("p" \o ToString(j), TRUE, TRUE, sig[j].ty, IF sig[j].d THEN Lit(sig[j].ty) ELSE Absent)]
ArgEs(args, form) == [j \in 1..Len(args) |-> AtomE(NT(args[j], FALSE), form)]
ArgSetup(args, form) == IF form \in {"lit", "ife", "neg", "grp"} THEN <<>>
                        ELSE LET S == {args[j] : j \in 1..Len(args)} IN
                             [j \in 1..Cardinality(S) |-> VarSetup(NT((CHOOSE f \in [1..Cardinality(S) -> S] : \A a, b \in 1..Cardinality(S) : a # b => f[a] # f[b])[j], FALSE))]

Probe(kind, decls, setup, stmts, ok, note) ==
    [kind |-> kind, decls |-> ClassDecls \o decls, setup |-> setup, stmts |-> stmts, writes |-> FALSE,
     expect |-> Verdict(ok), note |-> note]

RECURSIVE TyList(_, _)
TyList(sig, j) == IF j > Len(sig) THEN "" ELSE sig[j].ty \o (IF j < Len(sig) THEN ", " ELSE "") \o TyList(sig, j + 1)
FunTy(sig) == "(" \o TyList(sig, 1) \o ") -> Int"
\* --- function call --------------------------------------------------------------------
IdFun(ret) == Fun("idr", <<Param("x", ret, Absent)>>, ret, <<>>, <<Expr(Var("x"))>>)
UseOf(callE, ret, use) ==
    CASE use = "stmt" -> <<Expr(callE)>>
      [] use = "init" -> <<Def("r", TRUE, ret, callE)>>
      [] use = "arg"  -> <<Expr(Call("idr", <<callE>>))>>
CallProbes ==
    UNION { { Probe("call", <<Fun("f", ParamsOf(sig), "Int", <<>>, <<Expr(IntL(7))>>), IdFun("Int")>>,
            ArgSetup(args, form), UseOf(Call("f", ArgEs(args, form)), "Int", use), CallOK(sig, args),
            [sig |-> sig, args |-> args, use |-> use, form |-> form])
      : args \in ArgVariants(sig), use \in {"stmt", "init", "arg"}, form \in {"lit", "var", "ife", "neg", "grp"} } : sig \in Sigs }
  \cup  \* the same call THROUGH a parameter of function type (the callee is a value: an anonymous function handed in by the caller)
    UNION { { Probe("call-via-parameter",
                    <<Fun("run", <<Param("g", FunTy(sig), Absent)>>, "Int", <<>>, ArgSetup(args, form) \o <<Expr(Call("g", ArgEs(args, form)))>>)>>,
                    <<>>, <<Expr(Call("run", <<Lam(ParamsOf(sig), IntL(7))>>))>>, CallOK(sig, args),
                    [sig |-> sig, args |-> args, use |-> "via-parameter", form |-> form])
      : args \in ArgVariants(sig), form \in {"lit", "var", "ife", "neg", "grp"} } : sig \in {sg \in Sigs : Len(sg) > 0 /\ \A j \in 1..Len(sg) : ~sg[j].d} }
  \cup  \* the result used at another type
    { Probe("call-result", <<Fun("f", <<>>, rt, <<>>, <<Expr(Lit(rt))>>)>>, <<>>, <<Def("r", TRUE, u, Call("f", <<>>))>>,
            InitOK(u, rt), [ret |-> rt, used_as |-> u])
      : rt \in Tys, u \in Tys }

\* the result of a function or METHOD (declared type rt, or no return type at all: rt = "") used where type u is required:
\* as initialiser of a typed definition, as argument, as returned value of a function declaring u
ResultProbes ==
    { Probe("result-use",
            <<Fun("f", <<>>, rt, <<>>, IF rt = "" THEN <<PrintS(StrL("f"))>> ELSE <<Expr(Lit(rt))>>),
              Class("K", <<>>, <<>>, <<>>, <<Method("m", TRUE, <<>>, rt, <<>>, IF rt = "" THEN <<PrintS(StrL("m"))>> ELSE <<Expr(Lit(rt))>>)>>),
              Fun("takes", <<Param("x", u, Absent)>>, "", <<>>, <<PrintS(StrL("t"))>>)>>
            \o (IF use = "ret" THEN <<Fun("h", <<>>, u, <<>>, <<Expr(IF callee = "fun" THEN Call("f", <<>>) ELSE MCall(New("K", <<>>), "m", <<>>))>>)>> ELSE <<>>),
            IF callee = "mvar" THEN <<Def("k", TRUE, "", New("K", <<>>))>> ELSE <<>>,
            LET e == CASE callee = "fun" -> Call("f", <<>>) [] callee = "mnew" -> MCall(New("K", <<>>), "m", <<>>) [] callee = "mvar" -> MCall(Var("k"), "m", <<>>) IN
            CASE use = "init" -> <<Def("r", TRUE, u, e)>> [] use = "arg" -> <<Expr(Call("takes", <<e>>))>> [] use = "ret" -> <<PrintS(StrL("x"))>>,
            rt # "" /\ InitOK(u, rt), [ret |-> rt, used_as |-> u, callee |-> callee, use |-> use])
      : rt \in Tys \cup {""}, u \in Tys, callee \in {"fun", "mnew", "mvar"}, use \in {"init", "arg", "ret"} }

\* --- method call ----------------------------------------------------------------------
MethodProbes ==
    UNION { { Probe("method", <<Class("K", <<>>, <<>>, <<>>, <<Method("m", TRUE, ParamsOf(sig), "Int", <<>>, <<Expr(IntL(7))>>)>>), IdFun("Int")>>,
            ArgSetup(args, form) \o (IF recv = "var" THEN <<Def("k", TRUE, "", New("K", <<>>))>> ELSE <<>>),
            UseOf(MCall(IF recv = "var" THEN Var("k") ELSE New("K", <<>>), "m", ArgEs(args, form)), "Int", use),
            CallOK(sig, args), [sig |-> sig, args |-> args, use |-> use, form |-> form, recv |-> recv])
      : args \in ArgVariants(sig), use \in {"stmt", "init"}, form \in {"lit", "var"}, recv \in {"new", "var"} } : sig \in Sigs }

\* --- constructor call -----------------------------------------------------------------
CtorProbes ==
    UNION { { Probe("ctor", <<Class("K", CArgsOf(sig), <<>>, <<>>, <<>>)>>, ArgSetup(args, form),
            IF use = "stmt" THEN <<Expr(New("K", ArgEs(args, form)))>> ELSE <<Def("k", TRUE, "K", New("K", ArgEs(args, form)))>>,
            CallOK(sig, args), [sig |-> sig, args |-> args, use |-> use, form |-> form])
      : args \in ArgVariants(sig), use \in {"stmt", "init"}, form \in {"lit", "var"} } : sig \in Sigs }

\* --- return: the body / an explicit return (possibly nested) must conform to the declared type -----------
InnerCtxs == Ctxs({"for", "while", "then", "else", "arm", "harm"}, IF Depth >= 2 THEN 2 ELSE 1)
ReturnBody(shape, ictx, rt, t) ==
    CASE shape = "implicit" -> <<Expr(Lit(t))>>
      [] shape = "explicit" -> <<Ret(Lit(t))>>
      [] shape = "nested"   -> WrapAll(ictx, 1, <<Ret(Lit(t))>>) \o <<Expr(Lit(rt))>>
ReturnProbes ==
    { [ Probe("return", CtxDecls(ictx) \o <<Fun("k", <<Param("x", "Int", Absent)>>, rt, <<>>, ReturnBody(shape, ictx, rt, t))>>,
              <<>>, <<Pass>>, ReturnOK(rt, t), [declared |-> rt, actual |-> t, shape |-> shape, inner |-> ictx])
        EXCEPT !.kind = IF meth THEN "return-method" ELSE "return",
               !.decls = IF meth
                         THEN ClassDecls \o CtxDecls(ictx) \o <<Class("K", <<>>, <<>>, <<>>, <<Method("k", TRUE, <<Param("x", "Int", Absent)>>, rt, <<>>, ReturnBody(shape, ictx, rt, t))>>)>>
                         ELSE @ ]
      : rt \in Tys, t \in Tys, meth \in BOOLEAN,
        shape \in {"implicit", "explicit", "nested"}, ictx \in InnerCtxs }

\* --- annotated initialiser --------------------------------------------------------------
InitProbes ==
    { Probe("init", <<>>, AtomSetup(NT(t, FALSE), form), <<Def("r", TRUE, u, AtomE(NT(t, FALSE), form))>>, InitOK(u, t),
            [declared |-> u, actual |-> t, form |-> form])
      : u \in Tys \cup {"Any"}, t \in Tys, form \in {"lit", "var"} }
  \cup
    { Probe("field-init", <<Class("K", <<>>, <<>>, <<Def("fld", TRUE, u, Lit(t))>>, <<>>)>>, <<>>, <<Pass>>, InitOK(u, t),
            [declared |-> u, actual |-> t])
      : u \in Tys, t \in Tys }
  \cup  \* the default of a class argument (def and plain) and of a function parameter is an initialiser as well
    { Probe("field-init", <<Class("K", <<CArg("p1", isdef, TRUE, u, Lit(t))>>, <<>>, <<>>, <<>>)>>, <<>>, <<Pass>>, InitOK(u, t),
            [declared |-> u, actual |-> t, where |-> IF isdef THEN "def-class-argument" ELSE "class-argument"])
      : u \in Tys, t \in Tys, isdef \in BOOLEAN }
  \cup
    { Probe("field-init", <<Fun("fd", <<Param("p1", u, Lit(t))>>, "", <<>>, <<PrintS(StrL("f"))>>)>>, <<>>, <<Pass>>, InitOK(u, t),
            [declared |-> u, actual |-> t, where |-> "parameter"])
      : u \in Tys, t \in Tys }

\* --- tuple-typed values: a tuple conforms element by element ---------------------------------------------------------
\* the value arrives TYPED (result of a function declared to return (T1, T2)), flows into a parameter of type (U1, U2), is taken apart
\* there and each component is used at its declared type (so that a wrongly accepted program goes wrong when it runs: C04)
TT == {"Int", "Str", "Bool"}
TupTy(a, b) == "(" \o a \o ", " \o b \o ")"
UseAt(ty, v) == CASE ty = "Int" -> Bin("-", Var(v), IntL(1)) [] ty = "Str" -> Bin("+", Var(v), StrL("!")) [] ty = "Bool" -> Bin("and", Var(v), BoolL(TRUE))
TupleProbes ==
    { Probe("tuple-arg", << Fun("mk", <<>>, TupTy(q[1], q[2]), <<>>, <<Expr(TupL(<<Lit(q[1]), Lit(q[2])>>))>>),
                            Fun("use", <<Param("p", TupTy(q[3], q[4]), Absent)>>, "Int", <<>>,
                                <<DefTup(<<"x", "y">>, TRUE, Var("p")), Def("x2", TRUE, q[3], UseAt(q[3], "x")), Def("y2", TRUE, q[4], UseAt(q[4], "y")), Expr(IntL(0))>>) >>,
            <<>>, <<Expr(Call("use", <<Call("mk", <<>>)>>))>>, Sub(q[3], q[1]) /\ Sub(q[4], q[2]),
            [declared |-> <<q[3], q[4]>>, actual |-> <<q[1], q[2]>>])
      : q \in TT \X TT \X TT \X TT }
  \cup
    { Probe("tuple-init", << Fun("mk", <<>>, TupTy(q[1], q[2]), <<>>, <<Expr(TupL(<<Lit(q[1]), Lit(q[2])>>))>>) >>, <<>>,
            <<Def("tv", TRUE, TupTy(q[3], q[4]), Call("mk", <<>>))>>, Sub(q[3], q[1]) /\ Sub(q[4], q[2]),
            [declared |-> <<q[3], q[4]>>, actual |-> <<q[1], q[2]>>])
      : q \in TT \X TT \X TT \X TT }

Probes == CASE Part = "tuple" -> TupleProbes [] Part = "result" -> ResultProbes [] Part = "call" -> CallProbes [] Part = "method" -> MethodProbes [] Part = "ctor" -> CtorProbes
            [] Part = "return" -> {p \in ReturnProbes : p.note.shape = "nested" \/ p.note.inner = <<>>}
            [] Part = "init" -> InitProbes

\* return and field probes live in declarations: only the empty context applies to them
Contextual(p) == p.kind \notin {"return", "return-method", "field-init"}

Cases == { [prop |-> "C05", kind |-> p.kind, ctx |-> ctx, hoist |-> h, expect |-> p.expect, note |-> p.note,
            prog |-> Plug(ctx, h, p)]
           : p \in Probes, ctx \in Ctxs(Wrappers, Depth), h \in BOOLEAN }
Admissible(c, p) == TRUE

VARIABLE c
Init == c \in { x \in Cases : /\ (x.hoist => Len(x.ctx) > 0 /\ x.kind \notin {"return", "return-method", "field-init", "call-result", "result-use"}
                                             /\ x.kind \notin {"tuple-arg", "tuple-init"} /\ x.note.form = "var")
                              /\ (x.kind \in {"return", "return-method", "field-init"} => x.ctx = <<>>) }
Next == UNCHANGED c
Emit == PrintT("@@" \o ToJson(c))
=====================================================================================
