--------------------------------- MODULE LexInputs ---------------------------------
(* C18 / C14 / C03, role R2: the bounded-exhaustive input families of the lexer, as TLA+ sets.       *)
(* TLC enumerates them; every state is one input and is printed as one record.  An input is a        *)
(* sequence of `parts` (strings); the harness concatenates them (TLC cannot index into strings).     *)
EXTENDS Naturals, Sequences, TLC, Json

CONSTANTS Family,      \* "strings" | "pairs"
          N            \* maximal number of parts of a string input

\* characters (and a few multi-character units) that matter for position accounting
AlphaFull  == <<"a", "1", " ", "\n", "\"", "{", "}", "\\", "#", ".", "\r\n", "="  >>
\* sub-alphabets for longer strings: line accounting of strings, indentation arithmetic
AlphaLines == <<"a", " ", "\n", "\"", "{">>
AlphaInd   == <<"a", " ", "\n", "#">>
\* interpolated expressions: spacing and line breaks inside the braces of a string
AlphaInterp == <<"a", " ", "\"", "{", "}">>
\* doc strings: the triple quote as one unit, so that opening and closing quotes at different columns and lines fit into few parts
AlphaDoc == <<"\"\"\"", "a", " ", "\n">>
\* interpolation in strings that span lines: the line break before, inside and behind the braces
AlphaILines == <<"a", "\n", "\"", "{", "}">>
CONSTANT AlphaName
Alpha == CASE AlphaName = "full" -> AlphaFull [] AlphaName = "lines" -> AlphaLines [] AlphaName = "indent" -> AlphaInd [] AlphaName = "interp" -> AlphaInterp [] AlphaName = "doc" -> AlphaDoc [] AlphaName = "ilines" -> AlphaILines

\* the token vocabulary: every keyword and operator spelling of the language plus literals of each class
Vocab == << "from", "type", "class", "pure", "isa", "as", "import", "forward", ".", ",", ":", "vararg", "\\",
            "x", "fin", ":=", "+=", "-=", "*=", "/=", "^=", "<<=", ">>=", "def", "1.5", "12", "3E4", "\"s\"", "\"\"",
            "\"a{b}c\"", "\"{ b}\"", "\"{b }\"", "\"a{  b + c }d\"", "\"{\n b}\"", "\"{ \"s\" }\"", "\"x{ {1, 2} }\"", "\"{b}{ c}\"", "\"\"\"d\"\"\"", "..", "..=", "::", "::=", "+", "-", "*", "/", "//", "^", "mod", "sqrt",
            "_and_", "_or_", "_xor_", "_not_", "<<", ">>", ">", ">=", "<", "<=", "=", "is", "!=", "and", "or", "not",
            "(", ")", "[", "]", "{", "}", "|", "->", "=>", "\n", "\n    ", "_", "raise", "when", "while", "for", "in",
            "if", "then", "match", "else", "do", "continue", "break", "return", "with", "?", "handle", "pass",
            "# c", "self", "None", "True", "x1", "_x", "0", "0.", "1E" >>
Seps == << "", " ", "  " >>

VARIABLE parts
Init == CASE Family = "strings" -> parts = <<>>
          [] Family = "pairs"   -> \E i \in 1..Len(Vocab), j \in 1..Len(Vocab), s \in 1..Len(Seps) :
                                       parts = <<Vocab[i], Seps[s], Vocab[j]>>
Next == /\ Family = "strings" /\ Len(parts) < N
        /\ \E i \in 1..Len(Alpha) : parts' = Append(parts, Alpha[i])

Emit == PrintT("@@" \o ToJson([fam |-> Family \o "-" \o AlphaName, parts |-> parts]))
=====================================================================================
