INIT Init
NEXT Next
INVARIANT GoodInv
INVARIANT EmitCase
CHECK_DEADLOCK FALSE
