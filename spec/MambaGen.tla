------------------------------------ MODULE MambaGen ------------------------------------
(* A generator of WELL-TYPED programs of the executable core (R2): where the MC_Cxx families put one hand-written probe under every  *)
(* context, this module composes the constructs with each other - expressions of the three scalar types over variables, calls,     *)
(* methods, fields, indexing and conditionals; statements: typed / untyped definitions, assignment forms, if / for / while / match, *)
(* both handle forms, field update, early return - nested to a bounded depth, driven by a pseudo-random stream.  Typing is by       *)
(* construction (GenInt / GenBool / GenStr only build expressions of that type from an environment G of typed names), so every      *)
(* generated program is one the documentation calls valid; the reference semantics (MambaDynamic.Run) gives its output.             *)
(* R1 (invariant InsideSemantics): every generated program runs in the model without "wrong:.." and within fuel.                     *)
(*                                                                                                                                    *)
(* The stream is two small Lehmer generators (all arithmetic stays far below 2^31); program number i uses the seed R0(Base + i), so *)
(* a run is reproducible from (Base, N, Size).                                                                                        *)
EXTENDS MambaDynamic, Json

CONSTANTS N,        \* number of programs
          Base,     \* first seed
          Size      \* 1: 3-5 top-level statements, nesting 1;  2: 4-7 statements, nesting 2

I(n) == IntL(n)
V(n) == Var(n)
T(x) == StrL(x)

----------------------------------------------------------------------------------------
\* the stream
R0(i)  == <<(i * 7919 + 13) % 65537, 1 + ((i * 31 + 7) % 30268)>>
Nx(r)  == <<(r[1] * 75 + 74) % 65537, (r[2] * 171) % 30269>>
Pick(r, n) == ((r[1] + r[2]) % n) + 1            \* 1..n
Of(r, seq) == seq[Pick(r, Len(seq))]

----------------------------------------------------------------------------------------
\* fixed declarations every generated program may use
Decls == << Class("GenErr", <<CArg("msg", TRUE, TRUE, "Str", Absent)>>, <<Parent("Exception", <<>>)>>, <<>>, <<>>),
            Class("SubErr", <<CArg("msg", FALSE, TRUE, "Str", Absent)>>, <<Parent("GenErr", <<V("msg")>>)>>, <<>>, <<>>),
            Class("OtherErr", <<>>, <<Parent("Exception", <<>>)>>, <<>>, <<>>),
            Fun("risky", <<Param("x", "Int", Absent)>>, "Int", <<"GenErr", "OtherErr">>,
                <<If(Bin("<", V("x"), I(0)), <<Raise("SubErr", <<T("low")>>)>>, <<>>), If(Bin("=", V("x"), I(0)), <<Raise("GenErr", <<T("zero")>>)>>, <<>>),
                  If(Bin(">", V("x"), I(20)), <<Raise("OtherErr", <<>>)>>, <<>>), Expr(Bin("*", V("x"), I(2)))>>),
            Fun("twice", <<Param("x", "Int", Absent)>>, "Int", <<>>, <<Expr(Bin("*", V("x"), I(2)))>>),
            Fun("addk", <<Param("x", "Int", Absent), Param("k", "Int", I(10))>>, "Int", <<>>, <<Expr(Bin("+", V("x"), V("k")))>>),
            Fun("greet", <<Param("who", "Str", Absent)>>, "Str", <<>>, <<Expr(FStr(<<T("hi "), V("who")>>))>>),
            Class("Acc", <<CArg("start", TRUE, TRUE, "Int", Absent)>>, <<>>, <<Def("count", TRUE, "Int", I(0))>>,
                  <<Method("bump", TRUE, <<Param("by", "Int", Absent)>>, "Int", <<>>,
                           <<FAssign(V("self"), "count", Bin("+", Field(V("self"), "count"), V("by"))), Expr(Field(V("self"), "count"))>>),
                    Method("total", FALSE, <<>>, "Int", <<>>, <<Expr(Bin("+", Field(V("self"), "count"), Field(V("self"), "start")))>>),
                    Method("reset", TRUE, <<>>, "", <<>>, <<FAssign(V("self"), "count", I(0))>>)>>) >>

\* typed environment: iv / sv / bv readable expressions of type Int / Str / Bool; im / sm / bm names that may be assigned;
\* obj: the accumulator object c is in scope and may be mutated; lst: the list l; gf: the generated function may be called;
\* fn: inside a function with return type Int (early return allowed); n: counter for fresh names
G0 == [iv |-> <<V("a"), V("b")>>, im |-> <<"a", "b">>, sv |-> <<V("s")>>, sm |-> <<"s">>, bv |-> <<V("t")>>, bm |-> <<"t">>,
       obj |-> TRUE, lst |-> TRUE, gf |-> TRUE, fn |-> FALSE, n |-> 0]
Gf == [iv |-> <<V("p"), V("q")>>, im |-> <<>>, sv |-> <<>>, sm |-> <<>>, bv |-> <<>>, bm |-> <<>>,
       obj |-> FALSE, lst |-> FALSE, gf |-> FALSE, fn |-> TRUE, n |-> 100]
Gm == [Gf EXCEPT !.iv = <<V("p"), Field(V("self"), "base")>>, !.n = 200]

IntLits == <<0, 1, 2, 3, 5, 7, 10, -1, -4>>         \* literals inside expressions (a negative literal is a unary minus)
SetupLits == <<0, 1, 2, 3, 5, 7, 10, -1, -4>>      \* right-hand sides of the typed set-up definitions
StrLits == <<"a", "bc", "", "x y">>
De == 2          \* depth of expressions

RECURSIVE GenInt(_, _, _), GenBool(_, _, _), GenStr(_, _, _), HoleE(_, _), GenFStr(_, _)
GenInt(G, d, r) ==
    LET opts == IF d = 0 THEN <<"lit", "var", "var">>
                ELSE <<"lit", "var", "bin", "bin", "bin", "div", "neg", "call", "call2", "gf", "meth", "fld", "idx", "pow">>
        t0 == Of(r, opts)
        tag == IF t0 = "var" /\ Len(G.iv) = 0 THEN "lit" ELSE IF t0 \in {"meth", "fld"} /\ ~G.obj THEN "bin"
               ELSE IF t0 = "idx" /\ ~G.lst THEN "bin" ELSE IF t0 = "gf" /\ ~G.gf THEN "call" ELSE t0
        r1 == Nx(r) r2 == Nx(r1) IN
    CASE tag = "lit"   -> [x |-> I(Of(r1, IntLits)), r |-> r2]
      [] tag = "var"   -> [x |-> Of(r1, G.iv), r |-> r2]
      [] tag = "bin"   -> LET a == GenInt(G, d - 1, r2) b == GenInt(G, d - 1, a.r) IN [x |-> Bin(Of(r1, <<"+", "-", "*">>), a.x, b.x), r |-> b.r]
      [] tag = "div"   -> LET a == GenInt(G, d - 1, r2) IN [x |-> Bin(Of(r1, <<"//", "mod">>), a.x, I(Of(a.r, <<2, 3, 5>>))), r |-> Nx(a.r)]
      [] tag = "neg"   -> LET a == GenInt(G, d - 1, r1) IN [x |-> Neg(a.x), r |-> a.r]
      [] tag = "call"  -> LET a == GenInt(G, d - 1, r1) IN [x |-> Call("twice", <<a.x>>), r |-> a.r]
      [] tag = "call2" -> LET a == GenInt(G, d - 1, r2) b == GenInt(G, d - 1, a.r) IN
                          [x |-> Call("addk", IF Pick(r1, 2) = 1 THEN <<a.x>> ELSE <<a.x, b.x>>), r |-> b.r]
      [] tag = "gf"    -> LET a == GenInt(G, d - 1, r1) b == GenInt(G, d - 1, a.r) IN [x |-> Call("gen_f", <<a.x, b.x>>), r |-> b.r]
      [] tag = "meth"  -> LET a == GenInt(G, d - 1, r2) IN
                          IF Pick(r1, 2) = 1 THEN [x |-> MCall(V("c"), "bump", <<a.x>>), r |-> a.r] ELSE [x |-> MCall(V("c"), "total", <<>>), r |-> r2]
      [] tag = "fld"   -> [x |-> Field(V("c"), Of(r1, <<"count", "start">>)), r |-> r2]
      [] tag = "idx"   -> [x |-> Index(V("l"), I(Pick(r1, 3) - 1)), r |-> r2]
      [] tag = "pow"   -> LET a == GenInt(G, 0, r2) IN [x |-> Bin("^", a.x, I(Pick(r1, 3) - 1)), r |-> a.r]

GenBool(G, d, r) ==
    LET opts == IF d = 0 THEN <<"lit", "var", "var">> ELSE <<"var", "cmp", "cmp", "cmp", "and", "or", "not", "streq">>
        t0 == Of(r, opts)
        tag == IF t0 = "var" /\ Len(G.bv) = 0 THEN (IF d = 0 THEN "lit" ELSE "cmp") ELSE t0
        r1 == Nx(r) r2 == Nx(r1) IN
    CASE tag = "lit"   -> [x |-> BoolL(Pick(r1, 2) = 1), r |-> r2]
      [] tag = "var"   -> [x |-> Of(r1, G.bv), r |-> r2]
      [] tag = "cmp"   -> LET a == GenInt(G, d - 1, r2) b == GenInt(G, d - 1, a.r) IN
                          [x |-> Bin(Of(r1, <<"<", "<=", ">", ">=", "=">>), a.x, b.x), r |-> b.r]
      [] tag \in {"and", "or"} -> LET a == GenBool(G, d - 1, r1) b == GenBool(G, d - 1, a.r) IN [x |-> Bin(tag, a.x, b.x), r |-> b.r]
      [] tag = "not"   -> LET a == GenBool(G, d - 1, r1) IN [x |-> Not(a.x), r |-> a.r]
      [] tag = "streq" -> LET a == GenStr(G, d - 1, r2) b == GenStr(G, d - 1, a.r) IN [x |-> Bin(Of(r1, <<"=", "!=">>), a.x, b.x), r |-> b.r]

\* the holes of an interpolated string: a variable, or an expression of any scalar type (operators are re-spelled in the target language)
Hole(G, r) ==
    LET k == Pick(r, 3) r1 == Nx(r) IN
    IF k = 1 /\ Len(G.sv) > 0 THEN Of(r1, G.sv) ELSE IF k = 2 /\ Len(G.bv) > 0 THEN Of(r1, G.bv)
    ELSE IF Len(G.iv) > 0 THEN Of(r1, G.iv) ELSE I(Of(r1, IntLits))
HoleE(G, r) ==      \* [x, r]
    LET k == Pick(r, 6) r1 == Nx(r) IN
    CASE k = 1 -> GenInt(G, 1, r1) [] k = 2 -> GenBool(G, 1, r1) [] k = 3 -> GenStr(G, 0, r1) [] OTHER -> [x |-> Hole(G, r1), r |-> Nx(Nx(r1))]
GenFStr(G, r) ==
    LET r1 == Nx(r) h1 == HoleE(G, Nx(r1)) h2 == HoleE(G, h1.r) IN
    [x |-> FStr(IF Pick(r, 2) = 1 THEN <<T(Of(r1, <<"n=", "v ", "">>)), h1.x>>
                ELSE <<h1.x, T(Of(r1, <<" and ", "-", ", ">>)), h2.x, T("!")>>), r |-> Nx(h2.r)]
GenStr(G, d, r) ==
    LET opts == IF d = 0 THEN <<"lit", "var", "var">> ELSE <<"lit", "var", "cat", "cat", "fstr", "fstr", "greet">>
        t0 == Of(r, opts)
        tag == IF t0 = "var" /\ Len(G.sv) = 0 THEN "lit" ELSE t0
        r1 == Nx(r) r2 == Nx(r1) IN
    CASE tag = "lit"   -> [x |-> T(Of(r1, StrLits)), r |-> r2]
      [] tag = "var"   -> [x |-> Of(r1, G.sv), r |-> r2]
      [] tag = "cat"   -> LET a == GenStr(G, d - 1, r1) b == GenStr(G, d - 1, a.r) IN [x |-> Bin("+", a.x, b.x), r |-> b.r]
      [] tag = "fstr"  -> GenFStr(G, r1)
      [] tag = "greet" -> LET a == GenStr(G, d - 1, r1) IN [x |-> Call("greet", <<a.x>>), r |-> a.r]

----------------------------------------------------------------------------------------
\* statements.  Result: [x |-> statements, g |-> environment after them, r |-> stream]
Fresh(G, base) == base \o ToString(G.n)
Bump(G) == [G EXCEPT !.n = @ + 1]
RangeCases == << <<0, 3, 0>>, <<1, 4, 2>>, <<3, 0, -1>>, <<2, 2, 0>>, <<0, 2, 0>>, <<4, 0, -2>> >>

RECURSIVE GenStmt(_, _, _), GenBlock(_, _, _, _), GenHArms(_, _, _, _)

\* a block of len statements; definitions made inside stay inside (only the name counter is handed on)
GenBlock(G, ds, len, r) ==
    IF len = 0 THEN [x |-> <<>>, g |-> G, r |-> r]
    ELSE LET a == GenStmt(G, ds, r)
             b == GenBlock(a.g, ds, len - 1, a.r) IN
         [x |-> a.x \o b.x, g |-> b.g, r |-> b.r]
Inner(G, ds, r) == LET b == GenBlock(G, ds, Pick(r, 2), Nx(r)) IN [x |-> b.x, n |-> b.g.n, r |-> b.r]     \* 1-2 statements, fresh scope

\* handle arms: every exception of risky is caught (specific classes in some order, or the common ancestor), binder or `_`
GenHArms(G, value, ds, r) ==
    LET r1 == Nx(r) r2 == Nx(r1) r3 == Nx(r2)
        body(tag, rr) == IF value THEN <<PrintS(T(tag)), Expr(I(Of(rr, IntLits)))>> ELSE <<PrintS(T(tag))>>
        bnd(rr) == IF Pick(rr, 2) = 1 THEN "err" ELSE "_"
        shape == Pick(r, 4) IN
    [x |-> CASE shape = 1 -> <<HArm("GenErr", bnd(r1), body("gen", r1)), HArm("OtherErr", bnd(r2), body("other", r2))>>
             [] shape = 2 -> <<HArm("OtherErr", bnd(r1), body("other", r1)), HArm("SubErr", bnd(r2), body("sub", r2)), HArm("GenErr", bnd(r3), body("gen", r3))>>
             [] shape = 3 -> <<HArm("Exception", bnd(r1), body("any", r1))>>
             [] shape = 4 -> <<HArm("SubErr", "err", <<PrintS(Field(V("err"), "msg"))>> \o body("sub", r1)), HArm("Exception", bnd(r2), body("any", r2))>>,
     r |-> Nx(r3)]

GenStmt(G, ds, r) ==
    LET opts == <<"defi", "defi", "defs", "defb", "defu", "defneg", "defife", "defifs", "asg", "asg", "aug", "sasg", "basg", "pf", "pv", "handle", "hstmt", "fasg", "reset", "tup">>
                \o (IF ds > 0 THEN <<"if", "if", "ifelse", "for", "for", "forl", "while", "match", "match">> ELSE <<>>)
                \o (IF G.fn /\ ds > 0 THEN <<"ret">> ELSE <<>>)
        t0 == Of(r, opts)
        tag == IF t0 \in {"asg", "aug"} /\ Len(G.im) = 0 THEN "defi" ELSE IF t0 = "sasg" /\ Len(G.sm) = 0 THEN "defs"
               ELSE IF t0 = "basg" /\ Len(G.bm) = 0 THEN "defb" ELSE IF t0 \in {"fasg", "reset"} /\ ~G.obj THEN "defi"
               ELSE IF t0 = "forl" /\ ~G.lst THEN "for" ELSE t0
        r1 == Nx(r) r2 == Nx(r1) IN
    CASE tag \in {"defi", "defu"} ->
            LET e == GenInt(G, De, r1) nm == Fresh(G, "v") IN
            [x |-> <<Def(nm, TRUE, IF tag = "defi" THEN "Int" ELSE "", e.x), PrintS(V(nm))>>,
             g |-> Bump([G EXCEPT !.iv = Append(@, V(nm)), !.im = Append(@, nm)]), r |-> e.r]
      [] tag = "defs" ->
            LET e == GenStr(G, De, r1) nm == Fresh(G, "w") IN
            [x |-> <<Def(nm, TRUE, "Str", e.x), PrintS(V(nm))>>, g |-> Bump([G EXCEPT !.sv = Append(@, V(nm)), !.sm = Append(@, nm)]), r |-> e.r]
      [] tag = "defb" ->
            LET e == GenBool(G, De, r1) nm == Fresh(G, "u") IN
            [x |-> <<Def(nm, TRUE, "Bool", e.x), PrintS(V(nm))>>, g |-> Bump([G EXCEPT !.bv = Append(@, V(nm)), !.bm = Append(@, nm)]), r |-> e.r]
      \* the conditional expression is only used as the whole right-hand side of a typed definition (as an operand its type cannot be
      \* inferred by today's checker - recorded as drift in DESIGN.md, not a listed property; unary minus could not either until repair 0988c4b)
      [] tag = "defneg" ->
            LET e == GenInt(G, 1, r1) nm == Fresh(G, "v") IN
            [x |-> <<Def(nm, TRUE, "Int", Neg(e.x)), PrintS(V(nm))>>, g |-> Bump([G EXCEPT !.iv = Append(@, V(nm)), !.im = Append(@, nm)]), r |-> e.r]
      [] tag = "defife" ->
            LET c == GenBool(G, 1, r1) a == GenInt(G, 1, c.r) b == GenInt(G, 1, a.r) nm == Fresh(G, "v") IN
            [x |-> <<Def(nm, TRUE, "Int", IfE(c.x, a.x, b.x)), PrintS(V(nm))>>, g |-> Bump([G EXCEPT !.iv = Append(@, V(nm)), !.im = Append(@, nm)]), r |-> b.r]
      [] tag = "defifs" ->
            LET c == GenBool(G, 1, r1) a == GenStr(G, 1, c.r) b == GenStr(G, 1, a.r) nm == Fresh(G, "w") IN
            [x |-> <<Def(nm, TRUE, "Str", IfE(c.x, a.x, b.x)), PrintS(V(nm))>>, g |-> Bump([G EXCEPT !.sv = Append(@, V(nm)), !.sm = Append(@, nm)]), r |-> b.r]
      [] tag = "tup" ->
            LET a == GenInt(G, 0, r1) b == GenStr(G, 0, a.r) n1 == Fresh(G, "m") n2 == Fresh(G, "k") IN
            [x |-> <<DefTup(<<n1, n2>>, TRUE, TupL(<<a.x, b.x>>)), PrintS(V(n2)), PrintS(V(n1))>>,
             g |-> Bump([G EXCEPT !.iv = Append(@, V(n1)), !.sv = Append(@, V(n2))]), r |-> b.r]
      [] tag = "asg" -> LET e == GenInt(G, De, r2) IN [x |-> <<Assign(Of(r1, G.im), e.x)>>, g |-> G, r |-> e.r]
      [] tag = "aug" -> LET e == GenInt(G, 1, r2) IN [x |-> <<Aug(Of(r1, <<"+", "-", "*">>), Of(Nx(r2), G.im), e.x)>>, g |-> G, r |-> Nx(e.r)]
      [] tag = "sasg" -> LET e == GenStr(G, De, r2) IN [x |-> <<Assign(Of(r1, G.sm), e.x)>>, g |-> G, r |-> e.r]
      [] tag = "basg" -> LET e == GenBool(G, De, r2) IN [x |-> <<Assign(Of(r1, G.bm), e.x)>>, g |-> G, r |-> e.r]
      [] tag = "pf"  -> LET e == GenFStr(G, r1) IN [x |-> <<PrintS(e.x)>>, g |-> G, r |-> e.r]
      [] tag = "pv"  -> [x |-> <<PrintS(Hole(G, r1))>>, g |-> G, r |-> Nx(r2)]
      [] tag = "fasg" -> LET e == GenInt(G, De, r2) IN
                         [x |-> <<IF Pick(r1, 2) = 1 THEN FAssign(V("c"), "count", e.x) ELSE FAug(Of(r1, <<"+", "-">>), V("c"), "count", e.x), PrintS(Field(V("c"), "count"))>>, g |-> G, r |-> e.r]
      [] tag = "reset" -> [x |-> <<Expr(MCall(V("c"), "reset", <<>>))>>, g |-> G, r |-> r1]
      [] tag = "handle" ->
            LET e == GenInt(G, 1, r1) arms == GenHArms(G, TRUE, ds, e.r) nm == Fresh(G, "h") IN
            [x |-> <<Handle(Def(nm, TRUE, "Int", Call("risky", <<e.x>>)), arms.x), PrintS(FStr(<<T("h="), V(nm)>>))>>,
             g |-> Bump([G EXCEPT !.iv = Append(@, V(nm)), !.im = Append(@, nm)]), r |-> arms.r]
      [] tag = "hstmt" ->
            LET e == GenInt(G, 1, r1) arms == GenHArms(G, FALSE, ds, e.r) IN
            [x |-> <<Handle(Expr(Call("risky", <<e.x>>)), arms.x)>>, g |-> G, r |-> arms.r]
      [] tag \in {"if", "ifelse"} ->
            LET c == GenBool(G, De, r1) t == Inner(G, ds - 1, c.r) e == Inner([G EXCEPT !.n = t.n], ds - 1, t.r) IN
            IF tag = "if" THEN [x |-> <<If(c.x, t.x, <<>>)>>, g |-> [G EXCEPT !.n = t.n], r |-> t.r]
            ELSE [x |-> <<If(c.x, t.x, e.x)>>, g |-> [G EXCEPT !.n = e.n], r |-> e.r]
      [] tag = "for" ->
            LET rc == Of(r1, RangeCases) nm == Fresh(G, "i")
                b == Inner(Bump([G EXCEPT !.iv = Append(@, V(nm))]), ds - 1, Nx(r2)) IN
            [x |-> <<For(nm, Range(I(rc[1]), I(rc[2]), Pick(r2, 2) = 1, IF rc[3] = 0 THEN Absent ELSE I(rc[3])), b.x)>>, g |-> [G EXCEPT !.n = b.n], r |-> b.r]
      [] tag = "forl" ->
            LET nm == Fresh(G, "e") b == Inner(Bump([G EXCEPT !.iv = Append(@, V(nm))]), ds - 1, r1) IN
            [x |-> <<For(nm, V("l"), b.x)>>, g |-> [G EXCEPT !.n = b.n], r |-> b.r]
      [] tag = "while" ->
            LET nm == Fresh(G, "j") b == Inner(Bump([G EXCEPT !.iv = Append(@, V(nm))]), ds - 1, r2) IN
            [x |-> <<Def(nm, TRUE, "Int", I(0)), While(Bin("<", V(nm), I(Pick(r1, 3))), b.x \o <<Aug("+", nm, I(1))>>)>>,
             g |-> [G EXCEPT !.n = b.n, !.iv = Append(@, V(nm))], r |-> b.r]
      [] tag = "match" ->
            LET e == GenInt(G, 1, r2) l1 == Of(r1, <<0, 1, 2>>) l2 == Of(r1, <<3, 4, 6>>)
                a1 == Inner(G, ds - 1, e.r) a2 == Inner([G EXCEPT !.n = a1.n], ds - 1, a1.r)
                nm == "n" \o ToString(a2.n)
                binder == Pick(a2.r, 2) = 1
                a3 == Inner(IF binder THEN [G EXCEPT !.n = a2.n + 1, !.iv = Append(@, V(nm))] ELSE [G EXCEPT !.n = a2.n], ds - 1, Nx(a2.r)) IN
            [x |-> <<Match(e.x, <<Arm(I(l1), a1.x), Arm(I(l2), a2.x), Arm(IF binder THEN Var(nm) ELSE Wild, a3.x)>>)>>, g |-> [G EXCEPT !.n = a3.n], r |-> a3.r]
      [] tag = "ret" ->
            LET c == GenBool(G, 1, r1) e == GenInt(G, 1, c.r) IN [x |-> <<If(c.x, <<Ret(e.x)>>, <<>>)>>, g |-> G, r |-> e.r]

----------------------------------------------------------------------------------------
\* a whole program
Program(i) ==
    LET r == R0(i) r1 == Nx(r) r2 == Nx(r1) r3 == Nx(r2)
        ds == Size
        setup == <<Def("a", TRUE, "Int", I(Of(r, SetupLits))), Def("b", TRUE, "Int", I(Of(r1, SetupLits))), Def("s", TRUE, "Str", T(Of(r2, <<"ab", "q">>))),
                   Def("t", TRUE, "Bool", BoolL(Pick(r3, 2) = 1)), Def("l", TRUE, "", ListL(<<I(4), I(5), I(6)>>)), Def("c", TRUE, "", New("Acc", <<I(Of(r3, IntLits))>>))>>
        fb == GenBlock(Gf, 1, Pick(r3, 2), Nx(r3))
        fe == GenInt(fb.g, De, fb.r)
        genf == Fun("gen_f", <<Param("p", "Int", Absent), Param("q", "Int", Absent)>>, "Int", <<>>, fb.x \o <<Expr(fe.x)>>)
        mb == GenBlock(Gm, 1, Pick(fe.r, 2), Nx(fe.r))
        me == GenInt(mb.g, De, mb.r)
        genk == Class("GenK", <<CArg("base", TRUE, TRUE, "Int", Absent)>>, <<>>, <<>>, <<Method("calc", FALSE, <<Param("p", "Int", Absent)>>, "Int", <<>>, mb.x \o <<Expr(me.x)>>)>>)
        usek == <<Def("gk", TRUE, "", New("GenK", <<I(Of(me.r, IntLits))>>)), Def("gv", TRUE, "Int", MCall(V("gk"), "calc", <<I(Of(Nx(me.r), IntLits))>>)), PrintS(V("gv"))>>
        len == (IF Size = 1 THEN 2 ELSE 3) + Pick(me.r, IF Size = 1 THEN 3 ELSE 4)
        body == GenBlock(G0, ds, len, Nx(Nx(me.r))) IN
    Prog(Decls \o setup \o <<genf, genk>> \o usek \o body.x)

Cases == { [prop |-> "GEN", kind |-> "gen-" \o ToString(Size), ctx |-> <<>>, hoist |-> FALSE, seed |-> Base + i, prog |-> Program(Base + i)] : i \in 1..N }
VARIABLE c
Init == c \in Cases
Next == UNCHANGED c
Emit == PrintT("@@" \o ToJson(c))
\* R1: generated programs are inside the reference semantics (they end normally or with an exception of the language, never "wrong")
InsideSemantics == LET m == Run(c.prog, 400) IN m.cat \in {"ok", "exc", "skip"}
=====================================================================================
