INIT Init
NEXT Next
INVARIANT OrderIndependent
INVARIANT NonInterfering
INVARIANT Emit
CHECK_DEADLOCK FALSE
