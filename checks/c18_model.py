"""C18 R1: model-check the faithful lexer (spec/Lexer.tla) against the abstract properties on the string families, and measure the
agreement of the model's token streams with the real lexer's (drift, never a violation)."""
import vlib


def run(chk, tier, vh):
    import c18
    b = c18.BOUNDS[tier]
    disagree, total, examples = 0, 0, []
    for alpha in ("full", "lines", "indent", "interp", "doc", "classes", "words", "ilines"):
        r = vlib.tlc("MC_Lexer", "MC_Lexer.cfg", constants={"AlphaName": '"%s"' % alpha, "N": b.get(alpha, 6 if alpha == "doc" else 4) if alpha != "ilines" else 5}, xss="1g")
        chk.add_tlc(r)
        recs = [{"id": i, "src": "".join(c["parts"])} for i, c in enumerate(r.records)]
        real = {o["id"]: o for o in vlib.run_vh(vh, ["lex"], records=recs)}
        for i, c in enumerate(r.records):
            o = real[i]
            total += 1
            model = None if c["err"] else [(t["k"], t["sl"], t["sc"], t["el"], t["ec"]) for t in c["toks"]]
            impl = None if not o["ok"] else [(t["k"], t["sl"], t["sc"], t["el"], t["ec"]) for t in o["toks"]]
            # structural tokens: compare kinds only (their positions are the caret's, not part of the property)
            def norm(ts):
                return None if ts is None else [t if t[0] not in ("NL", "Indent", "Dedent") else (t[0],) for t in ts]
            if norm(model) != norm(impl):
                disagree += 1
                if len(examples) < 5:
                    examples.append({"input": recs[i]["src"], "model": model, "real": impl})
    chk.extra["model_agreement"] = {"inputs": total, "token_streams_that_differ_between_Lexer.tla_and_the_real_lexer": disagree}
    if disagree:
        chk.drift += examples
        chk.note("drift: spec/Lexer.tla and the real lexer disagree on %d of %d inputs (the model needs an update; not a violation)" % (disagree, total))
