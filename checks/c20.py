"""C20 - assignability is a sound order.

R1: spec/MC_Types.tla - the laws (reflexive, transitive, Any top, nullable rules, ancestors only, union laws) hold for the
    specified relation Sub on the whole universe.  R2: the universe is emitted as the case.
R3: harness evaluates the REAL relation (Name::is_superset_of, Context built from the spec's UserSource) for every ordered
    pair, repeated with fresh hash orders, plus real Name::union results; spec/TypesTable.tla checks every law on that
    table itself.  End-to-end: `def x: U := <expr of T>` through the whole pipeline must agree with the table.
"""
import itertools
import json
import os

import vlib

PROP = "C20"


def render_type(t):
    """Mamba source spelling of a type term (None if it cannot be written)."""
    ms = t["ms"]
    parts = []
    for m in ms:
        s = m["n"]
        if m["g"]:
            if m["n"] == "Tuple":
                s = "(" + ", ".join(render_type(g) for g in m["g"]) + ")"
            else:
                s += "[" + ", ".join(render_type(g) for g in m["g"]) + "]"
        if m["q"]:
            s += "?"
        parts.append(s)
    if len(parts) == 1:
        return parts[0]
    return "{" + ", ".join(sorted(parts)) + "}"


def observe(vh, case, tier):
    n = len(case["types"])
    reps = 4 if tier == "quick" else 12
    # union checks: all pairs among single-member types (bounded), triples among a smaller base
    singles = [i + 1 for i, t in enumerate(case["types"]) if len(t["ms"]) == 1]
    base = singles[:40] if tier == "quick" else singles
    unions = [[a, b] for a in base for b in base]
    tb = singles[:12] if tier == "quick" else singles[:24]
    # None and a nullable type always take part in the triples (absorption of None is where associativity can break)
    for i, t in enumerate(case["types"]):
        if len(t["ms"]) == 1 and (t["ms"][0]["n"] == "None" or (t["ms"][0]["q"] and t["ms"][0]["n"] in ("Int", "A"))) and (i + 1) not in tb:
            tb.append(i + 1)
    triples = [[a, b, c] for a in tb for b in tb for c in tb]
    rec = {"src": case["src"], "types": case["types"], "reps": reps, "unions": unions, "triples": triples}
    out = vlib.run_vh(vh, ["types-table"], records=[rec])[0]
    if not out.get("ok"):
        raise vlib.ToolError("could not build the context for the type universe: %s" % (out.get("err") or out.get("panic")))
    out["types"] = case["types"]
    return out


def judge(chk, obs):
    verdicts, states, trans = vlib.judge("TypesTable", "TypesTable.cfg", [obs], xss="1g")
    chk.states += states
    chk.transitions += trans
    chk.cmds.append("tlc TypesTable.tla (TRACE=<table of the real relation>)")
    return verdicts


def _members(t):
    return t["ms"]


def has_union_generic(t):
    return any(len(g["ms"]) > 1 or has_union_generic(g) for m in t["ms"] for g in m["g"])


def has_nullable_generic(t):
    return len(t["ms"]) == 1 and any(any(x["q"] for x in g["ms"]) for g in t["ms"][0]["g"])


def is_named(t, name):
    return len(t["ms"]) == 1 and t["ms"][0]["n"] == name


def explain_cell(left, right):
    """known finding that explains an error answer for `right usable as left`, or None"""
    if has_union_generic(right):
        return "KF-C20-2"
    if is_named(left, "Collection") and is_named(right, "Tuple"):
        return "KF-C20-3"
    return None


def explain_law(law, t):
    if law == "reflexive" and has_union_generic(t):
        return "KF-C20-2"
    if law == "reflexive" and has_nullable_generic(t):
        return "KF-C20-1"
    return None


def classify(chk, obs, verdicts):
    types = obs["types"]
    n = len(types)
    names = [render_type(t) for t in types]
    drift = 0
    seen_global = False
    for v in verdicts:
        if v["i"] == 0:
            seen_global = True
            for clause, ok in v["global"].items():
                chk.evaluations += 1
                if not ok and clause == "total":
                    bad = []
                    for a, row in enumerate(obs["rows"]):
                        for b, x in enumerate(row):
                            if x >= 2:
                                fid = explain_cell(types[a], types[b])
                                if fid in chk.kf:
                                    chk.known(fid)
                                else:
                                    bad.append([names[a], names[b], "error" if x == 2 else "panic"])
                    if bad:
                        chk.violation({"clause": "total", "cells": bad[:20],
                                       "what": "the relation gives no answer for %d pairs, e.g. %s <- %s (%s)" % (len(bad), bad[0][0], bad[0][1], bad[0][2])},
                                      key="total:%s:%s" % (bad[0][0], bad[0][1]))
                elif not ok:
                    detail = {}
                    if clause == "stable":
                        detail = {"unstable": [[names[a - 1], names[b - 1], ans] for a, b, ans in obs["unstable"][:10]]}
                    if clause == "commutative":
                        detail = {"unions": [u for u in obs["unions"] if u[2] != u[3]][:5]}
                    if clause == "associative":
                        detail = {"triples": [u for u in obs["triples"] if u[3] != u[4]][:5]}
                    chk.violation(dict(detail, clause=clause, what="global law '%s' fails on the real relation" % clause), key=clause)
            continue
        i = v["i"]
        chk.evaluations += n
        drift += v["drift"]
        for law in v["failed"]:
            fid = explain_law(law, types[i - 1])
            if law == "transitive" and v["trans"] and any(has_union_generic(types[x - 1]) for x in v["trans"]):
                fid = "KF-C20-2"      # the relation gives no answer (error) for a right-hand type with a union generic argument
            if fid in chk.kf:
                chk.known(fid)
                continue
            if law == "generic-arguments-related":
                ws = [types[x - 1] for x in v.get("gen", [])]
                # every witness is an instantiation with a nullable argument (the '?' of a generic argument is dropped: KF-C20-1)
                if ws and all(has_nullable_generic(t) for t in ws):
                    fid = "KF-C20-1"
                    if fid in chk.kf:
                        chk.known(fid)
                        continue
            w = v["trans"] if law == "transitive" else (v.get("gen", [])[:3] if law == "generic-arguments-related" else [])
            chk.violation({"clause": law, "type": names[i - 1], "type_term": types[i - 1],
                           "witness": [names[x - 1] for x in w],
                           "what": "law '%s' fails for %s %s" % (law, names[i - 1], [names[x - 1] for x in w])},
                          key="%s:%s" % (law, names[i - 1]))
    if not seen_global or len(verdicts) != n + 1:
        raise vlib.ToolError("judge returned %d verdicts for %d types" % (len(verdicts), n))
    pairs_true = sum(sum(1 for x in row if x == 1) for row in obs["rows"])
    chk.traces += 1
    chk.extra["relation"] = {"types": n, "pairs": n * n, "pairs_related": pairs_true, "triples_checked": n ** 3,
                             "union_pairs": len(obs["unions"]), "union_triples": len(obs["triples"]),
                             "repetitions_per_query": None}
    chk.extra["model_agreement"] = {"pairs_where_real_relation_differs_from_spec_Sub": drift, "of": n * n}
    for i, row in enumerate(obs["rows"]):
        for j, x in enumerate(row):
            if x == 1 and i != j:
                chk.nontriv("%d<=%d" % (j, i))
    for k in range(0, n, max(1, n // 5)):
        chk.sample({"type": names[k], "accepts": [names[j] for j, x in enumerate(obs["rows"][k]) if x == 1][:8]})
    if drift:
        chk.note("drift: the real relation differs from the specified Sub on %d of %d pairs (not a violation of the listed laws)" % (drift, n * n))


def run(tier):
    chk = vlib.Check(PROP, tier)
    vh = vlib.build_harness()
    size = "small" if tier == "quick" else "full"
    r = vlib.tlc("MC_Types", "MC_Types.cfg", constants={"Size": '"%s"' % size}, xss="1g")
    chk.add_tlc(r)
    if len(r.records) != 1:
        raise vlib.ToolError("expected one universe record, got %d" % len(r.records))
    case = r.records[0]
    obs = observe(vh, case, tier)
    verdicts = judge(chk, obs)
    classify(chk, obs, verdicts)
    import c20_e2e
    c20_e2e.run(chk, tier, vh, case, obs)
    chk.exhaustive = True
    chk.rule = ("every ordered pair and triple of the universe of spec/Types.tla (built-in classes of the default context, user "
                "hierarchy A; B:A; C:B; D:A; M:B,D; E, nullable variants, unions of <= 2, List/Set/Collection/Dict/Tuple "
                "instantiations of depth <= 2); non-trivial = distinct related pairs (T usable as U, T # U) of the real relation")
    chk.assumptions = ["the relation is Name::is_superset_of with is_interchangeable = false on a Context built from the spec's UserSource",
                       "hash orders are explored by repetition with fresh sets and rotated insertion order, not forced"]
    return chk.finish()


def replay(path):
    print("replay for C20 re-runs the quick check (the case is the whole table)")
    return run("quick")
