"""C03 - totality: any input yields output or diagnostics, never a crash or hang.

R1: spec/Pipeline.tla - the stage machine terminates in Done or Reported and returns outputs XOR diagnostics.
R2: spec/PipelineInputs.tla - token soup, inheritance digraphs, adversarial shapes, enumerated by TLC; plus the programs of the
    other families, the repository samples and seeded token-level mutants (single and double) of all of them.
R3: every input runs through the real pipeline (both annotate modes) in isolated worker processes under the guarded event
    hooks; spec/PipelineTrace.tla accepts a recorded run iff it is a behaviour of Pipeline that ends in Done / Reported within
    the step bound.  Panics, aborts and hangs are observations without an accepting continuation.
"""
import json

import corpus
import families
import vlib

PROP = "C03"
MAX_CHARS = 4096


def inputs_for(chk, tier):
    inputs = []
    for fam, k in (("soup", 3 if tier == "quick" else 4), ("graphs", 0), ("ggraphs", 0), ("shapes", 0)):
        r = vlib.tlc("PipelineInputs", "PipelineInputs.cfg", constants={"Family": '"%s"' % fam, "K": k}, xss="1g")
        chk.add_tlc(r)
        inputs += [{"fam": c["fam"], "src": c["src"]} for c in r.records]
    n_tlc = len(inputs)
    rng = corpus.rng_for(PROP, vlib.seed())
    progs = families.all_programs(chk, depth_values=1 if tier == "thorough" else 0, depth_verdict=0)
    step = 1 if tier == "thorough" else 6
    seeds = [p["src"] for p in progs[::step]]
    for s in seeds:
        inputs.append({"fam": "program", "src": s})
    samples = corpus.repo_samples()
    for rel, text in samples:
        inputs.append({"fam": "sample", "src": text, "name": rel})
    per = 4 if tier == "quick" else 40
    for rel, text in samples:
        for j in range(per):
            m, ops = corpus.mutate(text, rng, n=rng.choice([1, 1, 2]))
            inputs.append({"fam": "mutant-sample", "src": m, "name": "%s#%d:%s" % (rel, j, "+".join(ops))})
    for s in seeds[:: (4 if tier == "quick" else 1)]:
        for j in range(2 if tier == "quick" else 6):
            m, ops = corpus.mutate(s, rng, n=rng.choice([1, 2]))
            inputs.append({"fam": "mutant-program", "src": m, "name": "+".join(ops)})
    # random bytes-as-text
    alphabet = list("abcdefxyz0123456789 \n\n    (){}[]:=+-*/<>.,\"'#?!\\|_") + ["def ", "class ", "if ", " then ", "\n    ", "ü", "\t", "\r\n"]
    for j in range(300 if tier == "quick" else 5000):
        inputs.append({"fam": "random-text", "src": "".join(rng.choice(alphabet) for _ in range(rng.randrange(1, 60)))})
    out, seen = [], set()
    for rec in inputs:
        if rec["src"] in seen or len(rec["src"]) > MAX_CHARS:
            continue
        seen.add(rec["src"])
        rec["id"] = len(out)
        out.append(rec)
    return out, n_tlc


def observe(vh, inputs):
    recs = [{"id": c["id"], "src": c["src"], "annotate": [False, True]} for c in inputs]
    results, dead = vlib.run_vh_isolated(vh, ["transpile"], recs, chunk=400, timeout=180)
    obs = []
    for c in inputs:
        base = {"files": 1, "chars": len(c["src"])}
        if c["id"] in dead:
            why = dead[c["id"]]
            obs.append(dict(base, id="%d/any" % c["id"], events=[], counters={"tokens": 0, "constraints": 0, "unify_steps": 0},
                            how="hung" if why == "hung" else "died", ok=False, n=0, detail=why))
            continue
        for mode, run in zip(("off", "on"), results[c["id"]]["runs"]):
            cnt = {"tokens": 0, "constraints": 0, "unify_steps": 0}
            cnt.update({k: v for k, v in run["counters"].items() if k in cnt})
            how = "panicked" if run.get("panic") else "returned"
            if run["ms"] > 60000:
                how = "hung"
            obs.append(dict(base, id="%d/%s" % (c["id"], mode), events=run["events"], counters=cnt, how=how, ok=bool(run["ok"]),
                            n=len(run["out"]) if run["ok"] else len(run["errs"]), detail=run.get("panic") or "", ms=run["ms"]))
    return obs


KNOWN_PANICS = {}


def explain(o, inp):
    d = o.get("detail") or ""
    for needle, fid in KNOWN_PANICS.items():
        if needle in d:
            return fid
    return None


def run(tier):
    chk = vlib.Check(PROP, tier)
    r1 = vlib.tlc("Pipeline", "MC_Pipeline.cfg")
    chk.add_tlc(r1)
    vh = vlib.build_harness()
    inputs, n_tlc = inputs_for(chk, tier)
    vlib.log("%d inputs (%d enumerated by PipelineInputs)" % (len(inputs), n_tlc))
    obs = observe(vh, inputs)
    verdicts, states, trans = vlib.judge("PipelineTrace", "PipelineTrace.cfg", obs, chunk=30000, xss="512m")
    chk.states += states
    chk.transitions += trans
    chk.cmds.append("tlc PipelineTrace.tla (TRACE=<recorded stage-event traces>)")
    if len(verdicts) != len(obs):
        raise vlib.ToolError("judge returned %d verdicts for %d observations" % (len(verdicts), len(obs)))
    # SETS of input files (projects of spec/MC_Project.tla incl. inheritance that closes across files): a run ends with Python for
    # every file or with at least one diagnostic, never with a panic, and never with neither
    import c13
    pr = vlib.tlc("MC_Project", "MC_Project.cfg", constants={"N": 2 if tier == "quick" else 3}, xss="1g")
    chk.add_tlc(pr)
    pcases = pr.records
    for i, c in enumerate(pcases):
        c["id"] = i
    _, presults = c13.observe(vh, pcases, False)
    for c in pcases:
        o = presults.get(c["id"])
        chk.evaluations += 1
        chk.traces += 1
        runs_ = [] if o is None else list(o["runs"]) + list(o["perms"])
        bad = "died" if o is None else "panic" if any(r.get("panic") for r in runs_) else \
              "rejected-without-diagnostics" if any((not r["ok"]) and not r["errs"] for r in runs_) else None
        if bad:
            desc = [{"path": c13.PATHS[f["path"] - 1], "uses": f["uses"], "fault": f["fault"]} for f in c["files"]]
            chk.violation({"project": desc, "case": {"files": c["files"], "perms": c["perms"]}, "clause": "violation:" + bad, "what": "violation:%s for project %s" % (bad, desc)}, key=bad + json.dumps(desc))
    by_obs = {o["id"]: o for o in obs}
    by_in = {c["id"]: c for c in inputs}
    counts, worst = {}, {"unify_per_char2": 0.0, "ms": 0}
    for v in verdicts:
        o = by_obs[v["id"]]
        inp = by_in[int(v["id"].split("/")[0])]
        chk.evaluations += 1
        chk.traces += 1
        key = "%s/%s" % (inp["fam"], v["v"])
        counts[key] = counts.get(key, 0) + 1
        worst["ms"] = max(worst["ms"], o.get("ms", 0))
        if o["chars"]:
            worst["unify_per_char2"] = max(worst["unify_per_char2"], o["counters"]["unify_steps"] / float(o["chars"] ** 2 + 100 * o["chars"]))
        if v["v"] == "ok":
            if o["events"] and len(o["events"]) >= 4:
                chk.nontriv(inp["src"])
            if len(chk.samples) < 4 and inp["fam"] in ("soup", "graphs", "mutant-sample") and not o["ok"]:
                chk.sample({"input": inp["src"][:200], "family": inp["fam"], "events": [e["ev"] + ":" + e["stage"] for e in o["events"]], "returned": "%d diagnostics" % o["n"]})
            continue
        fid = explain(o, inp)
        if fid and fid in chk.kf:
            chk.known(fid)
            continue
        chk.violation({"input": inp["src"], "family": inp["fam"], "name": inp.get("name", ""), "mode": v["id"].split("/")[1], "clause": v["v"],
                       "how": o["how"], "detail": o.get("detail"), "events": o["events"], "counters": o["counters"],
                       "what": "%s (%s) on %r" % (v["v"], (o.get("detail") or "")[:120], inp["src"][:80])},
                      key=(o.get("detail") or v["v"]) + "|" + inp["src"][:40] if o["how"] != "panicked" else o.get("detail"))
    chk.extra["verdict_counts"] = counts
    chk.extra["worst_observed"] = worst
    chk.exhaustive = False
    chk.rule = ("token soup of <= %d spellings, all 512 inheritance digraphs on 3 classes, the adversarial shapes of spec/PipelineInputs.tla "
                "(all enumerated by TLC), programs of the other families, every repository sample, seeded single / double token mutants, "
                "random text; each in both annotate modes; non-trivial = distinct inputs that got past parsing (>= 4 stage events)"
                % (3 if tier == "quick" else 4))
    chk.assumptions = ["inputs <= 4 KB; a Rust panic / abort / hang is observed on the worker process, not modelled",
                       "hang back-stop: 60 s per input (normal: < 100 ms); the step bound is the decisive progress measure",
                       "violations are de-duplicated by panic message and location"]
    return chk.finish()


def replay(path):
    payload = json.load(open(path))
    vh = vlib.build_harness()
    if "case" in payload:       # a set of input files
        import c13
        case = dict(payload["case"], id=0)
        _, res = c13.observe(vh, [case], False)
        o = res.get(0)
        runs_ = [] if o is None else list(o["runs"]) + list(o["perms"])
        if o is None or any(r.get("panic") for r in runs_) or any((not r["ok"]) and not r["errs"] for r in runs_):
            print("VIOLATION property=%s replay=%s" % (PROP, path))
            return 1
        print("REPLAY ok")
        return 0
    obs = observe(vh, [{"id": 0, "src": payload["input"]}])
    bad = [o for o in obs if o["how"] != "returned" or (not o["ok"] and o["n"] == 0)]
    for o in obs:
        print(o["id"], o["how"], o.get("detail"))
    if bad:
        print("VIOLATION property=%s replay=%s" % (PROP, path))
        return 1
    print("REPLAY ok")
    return 0
