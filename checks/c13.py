"""C13 - projects: all-or-nothing, mirrored layout, order-independent, non-interfering.

R1+R2: spec/MC_Project.tla - Expected(p) is invariant under permutation and under adding an unrelated file, for every project
       of 1..N files over the path pool (each file defines its own class / function, optionally uses the next file's, carries at
       most one lexical / syntax / type fault); every project is emitted with all permutations.
R3:    the harness materialises each project in a scratch directory, runs the real transpile_dir twice, snapshots the output
       tree, calls mamba_to_python directly with every permutation and with an unrelated extra file; spec/ProjectJudge.tla
       compares with Expected(p).
"""
import hashlib
import json
import re

import vlib

PROP = "C13"
PATHS = ["a.mamba", "d/b.mamba", "d/e.mamba.d/c.mamba.mamba", "d.mamba", "d/y.mamba", "d-x/b.mamba"]     # = Paths of spec/Project.tla


def py_of(path):
    """the expected output path: only the final extension changes"""
    return path[:-len(".mamba")] + ".py"
FAULT = {"lex": "def q := 1 ! 2\n", "syntax": "def := 1\n", "type": "def q: Int := \"s\"\n"}
ARROW = re.compile(r"──→ ([^\s:]+)")


STALE = "# stale output of an earlier run\n" + "stale_line = 0\n" * 400


def source(i, f, files):
    """file with path index i (1-based index into PATHS)"""
    n = i
    idx = [g["path"] for g in files]
    target = idx[(idx.index(i) + 1) % len(idx)]
    ring = [g["path"] for g in files if g["uses"] == "inherit"]
    if f["uses"] == "inherit" and len(ring) > 1:
        target = ring[(ring.index(i) + 1) % len(ring)]
    head = "class K%d: K%d\n" % (n, target) if f["uses"] == "inherit" else "class K%d\n" % n
    src = head + "    def m(self) -> Int => %d\ndef f%d(x: Int) -> Int => x + %d\n" % (n, n, n)
    if f["uses"] in ("class", "fun"):
        src += "def u%d := K%d()\n" % (n, target) if f["uses"] == "class" else "def u%d: Int := f%d(1)\n" % (n, target)
    if f["fault"] != "none":
        src += FAULT[f["fault"]]
    return src


def sha(t):
    return hashlib.sha1(t.encode()).hexdigest()[:12]


def blamed(errs):
    out = set()
    for e in errs:
        for m in ARROW.finditer(e):
            out.add(m.group(1))
    return sorted(out)


def observe(vh, cases, annotate):
    recs = []
    for c in cases:
        files = [{"path": PATHS[f["path"] - 1], "src": source(f["path"], f, c["files"])} for f in c["files"]]
        used = {f["path"] for f in c["files"]}
        free = [i for i in range(1, len(PATHS) + 1) if i not in used]
        extra = {"path": "x/fresh.mamba", "src": "class Fresh9\n    def m(self) -> Int => 9\ndef fresh9() -> Int => 9\n"} if True else None
        perms = [[q - 1 for q in p] for p in c["perms"]]
        rec = {"id": c["id"], "files": files, "perms": perms, "extra": extra, "annotate": annotate}
        if c["id"] % 2 == 1:
            # an already populated output directory: every target file exists with LONGER stale content
            rec["pre"] = [{"path": py_of(f["path"]), "src": STALE} for f in files]
        recs.append(rec)
    results, dead = vlib.run_vh_isolated(vh, ["project"], recs, chunk=300, timeout=300)
    obs = []
    for c in cases:
        o = results.get(c["id"])
        if o is None:
            obs.append({"id": c["id"], "files": c["files"], "panic": True, "run1": {}, "run2": {}, "perms": [], "extra": {}, "has_extra": False, "written_expected": [],
                        "pre": False, "stale_sha": ""})
            continue
        n = len(c["files"])
        def run_rec(r):
            return {"ok": r["ok"], "tree": [{"path": p, "sha": sha(t)} for p, t in sorted(r["tree"].items())], "blamed": blamed(r["errs"]),
                    "events": [e for e in r["events"] if e["ev"] in ("write", "end")]}
        perms = []
        for pr in o["perms"]:
            outs = [""] * n
            if pr["ok"]:
                for k, fi in enumerate(pr["order"]):
                    outs[fi] = sha(pr["out"][k])
            perms.append({"ok": pr["ok"], "blamed": blamed(pr["errs"]), "outs": outs})
        ex = o["with_extra"]
        extra = {"ok": ex["ok"], "outs": [sha(t) for t in ex["out"][:n]] if ex["ok"] else []}
        # what the files on disk must contain: the pipeline's output for that file (LF line endings), in path order of the tree
        written = []
        if o["runs"][0]["ok"] and o["perms"] and o["perms"][0]["ok"]:
            ident = o["perms"][0]
            bypath = {}
            for k, fi in enumerate(ident["order"]):
                bypath[py_of(PATHS[c["files"][fi]["path"] - 1])] = ident["out"][k].replace("\r\n", "\n")
            written = [sha(bypath[p]) for p in sorted(bypath)]
        panic = any(r.get("panic") for r in o["runs"]) or any(p.get("panic") for p in o["perms"])
        obs.append({"id": c["id"], "files": c["files"], "panic": bool(panic), "run1": run_rec(o["runs"][0]), "run2": run_rec(o["runs"][1]),
                    "perms": perms, "extra": extra, "has_extra": True, "written_expected": written,
                    "pre": c["id"] % 2 == 1, "stale_sha": sha(STALE)})
    return obs, results


def run(tier):
    chk = vlib.Check(PROP, tier)
    vh = vlib.build_harness()
    n = 3 if tier == "quick" else 4
    r = vlib.tlc("MC_Project", "MC_Project.cfg", constants={"N": n}, xss="1g")
    chk.add_tlc(r)
    cases = r.records
    if tier == "quick":
        pass
    for i, c in enumerate(cases):
        c["id"] = i
    counts = {}
    for annotate in (False, True) if tier == "thorough" else (False,):
        obs, raw = observe(vh, cases, annotate)
        verdicts, states, trans = vlib.judge("ProjectJudge", "ProjectJudge.cfg", obs, chunk=20000, xss="512m")
        chk.states += states
        chk.transitions += trans
        if len(verdicts) != len(obs):
            raise vlib.ToolError("judge returned %d verdicts for %d observations" % (len(verdicts), len(obs)))
        by = {c["id"]: c for c in cases}
        ob = {o["id"]: o for o in obs}
        for v in verdicts:
            c = by[v["id"]]
            chk.evaluations += 1
            chk.traces += 1
            counts[v["v"]] = counts.get(v["v"], 0) + 1
            desc = [{"path": PATHS[f["path"] - 1], "uses": f["uses"], "fault": f["fault"]} for f in c["files"]]
            if v["v"] == "ok":
                if len(c["files"]) > 1:
                    chk.nontriv(json.dumps(desc))
                if len(chk.samples) < 3 and len(c["files"]) == 3 and not c["expected"]["ok"]:
                    chk.sample({"project": desc, "expected": "no python, diagnostics name %s" % [PATHS[x - 1] for x in c["expected"]["blamed"]], "verdict": "ok"})
                continue
            o = ob[c["id"]]
            chk.violation({"project": desc, "sources": {PATHS[f["path"] - 1]: source(f["path"], f, c["files"]) for f in c["files"]}, "annotate": annotate,
                           "clause": v["v"], "observed": {"ok": o["run1"].get("ok"), "tree": [t["path"] for t in o["run1"].get("tree", [])], "blamed": o["run1"].get("blamed"),
                                                          "perm_verdicts": [p["ok"] for p in o["perms"]], "perm_blamed": [p["blamed"] for p in o["perms"]]},
                           "what": "%s for project %s" % (v["v"], desc)}, key=v["v"] + json.dumps(desc))
    chk.cmds.append("tlc ProjectJudge.tla (TRACE=<recorded project runs>)")
    chk.extra["verdict_counts"] = counts
    chk.exhaustive = True
    chk.rule = ("every project of 1..%d files over 5 nested paths, each file optionally using the next file's class / function, at most one "
                "lexical / syntax / type fault (spec/MC_Project.tla), all permutations of the presentation order, an unrelated extra file, two "
                "consecutive runs into the same output directory; non-trivial = distinct multi-file projects" % n)
    chk.assumptions = ["projects are materialised under $TMPDIR and removed", "file names in diagnostics are read from the '──→ path' line of the rendering"]
    return chk.finish()


def replay(path):
    print("replay for C13 re-runs the quick check")
    return run("quick")
