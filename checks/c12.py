"""C12 - determinism: verdict and emitted bytes depend on the input alone.

R2: spec/MC_Session.tla enumerates every request history of length <= 3 over a pool of 6 inputs.
R3: each history is replayed in ONE process of the real code; additionally every input of a larger pool (programs that stress
    unordered collections: unions, several classes / parents / members, same-named definitions; the C01 programs; repository
    samples) is transpiled repeatedly in one process, concurrently on 16 threads, and in fresh processes.
    spec/SessionJudge.tla requires every response to equal the input's isolated response.
"""
import json

import corpus
import families
import vlib

PROP = "C12"

STRESS = [
    # unions whose members have the same class name and differ only in generics (their order in the emitted Union[..])
    "def first(x: Int) -> List[Int] raise [Exception] =>\n    if x < 0 then\n        raise Exception(\"negative\")\n    else\n        return [x]\ndef same(xs: {List[Int], List[Str]}) -> {List[Int], List[Str]} => xs\ndef a: {List[Int], List[Str]} := first(1) handle\n    err: Exception => [\"none\"]\ndef b: {Set[Str], Set[Int], Set[Bool]} := {1}\ndef c: {(Int, Str), (Str, Int), (Bool, Bool)} := (1, \"s\")\nprint(same(a))\n",
    # a class argument, then a method directly followed by a field: where does the synthesised constructor go?
    "class A(x: Int)\n    def m(self) -> Int => 1\n    def f: Int := 2\nclass B(def y: Int, z: Int := 3)\n    def n(self) -> Int => 1\n    def o(self) -> Int => 2\n    def g: Int := 4\n    def h: Int := 5\n",
    # two parents that define the same method; a class with two methods of the same name
    "class P1\n    def same(self) -> Int => 1\nclass P2\n    def same(self) -> Str => \"s\"\nclass C: P1, P2\ndef r: Int := C().same()\n",
    "class D\n    def twice(self) -> Int => 1\n    def twice(self) -> Str => \"s\"\ndef r: Int := D().twice()\n",
    "class P1\n    def v: Int := 1\nclass P2\n    def v: Str := \"s\"\nclass C: P1, P2\ndef r: Int := C().v\n",
    # a method at index i and a field at index i + 2 compete for the same place in the emitted class body
    "class T\n    def m0(self) -> Int => 0\n    def m1(self) -> Int => 1\n    def f2: Int := 2\n    def f3: Int := 3\n    def m4(self) -> Int => 4\n    def f5: Int := 5\n",
    # members of different kinds: the generator rebuilds the class body through a map
    "class Many(def a: Int, def b: Int)\n    def f1: Int := 1\n    def f2: Int := 2\n    def f3: Int := 3\n    def m1(self) -> Int => 1\n    def m2(self) -> Int => 2\n    def m3(self) -> Int => 3\n    def m4(self) -> Int => 4\n",
    "class P1\n    def p1(self) -> Int => 1\nclass P2\n    def p2(self) -> Int => 2\nclass P3\n    def p3(self) -> Int => 3\nclass Child: P1, P2, P3\n    def c(self) -> Int => self.p1() + self.p2() + self.p3()\ndef x := Child().c()\n",
    "def u: {Int, Str, Bool} := 1\ndef v: {Str, Int} := \"s\"\ndef f(x: {Int, Str}) -> {Int, Str} => x\ndef w := f(u)\n",
    "def f(x: Int) -> Int => x\ndef f(x: Str) -> Str => x\ndef a := f(1)\n",
    # a method / a field of a union receiver whose members give different types
    "class A\n    def f(self) -> Float => 1.5\n    def v: Float := 1.5\nclass B\n    def f(self) -> Int => 1\n    def v: Int := 1\ndef g(x: {A, B}) =>\n    def y := x.f()\n    print(y)\ndef h(x: {A, B}) -> Float => x.v\ng(A())\n",
    "class A\n    def f(self) -> Str => \"a\"\nclass B\n    def f(self) -> Int => 1\nclass C\n    def f(self) -> Bool => True\ndef g(x: {A, B, C}) => x.f()\ndef k(x: {B, A}) -> Int => x.f()\n",
    "class G[T]\n    def v: T\nclass G\n    def w: Int := 1\ndef g := G()\n",
    "def x := if True then 1 else \"s\"\ndef y := match 1\n    1 => 1\n    2 => \"s\"\n    _ => True\nprint(x)\n",
    "class A\n    def a: Int := 1\n    def b: Int := 2\n    def c: Int := 3\n    def d: Int := 4\n    def e: Int := 5\n    def f(self) -> Int => self.a\n    def g(self) -> Int => self.b\n",
    "from typing import List\nimport math\ndef x: Int? := None\ndef y: {Int, Str}? := None\ndef z: (Int, Str) := (1, \"s\")\ndef r := sqrt 4\ndef f(g: Int -> Int) -> Int => g(1)\n",
    "type T\n    def a(self) -> Int\n    def b(self) -> Int\n    def c(self) -> Int\nclass I: T\n    def a(self) -> Int => 1\n    def b(self) -> Int => 2\n    def c(self) -> Int => 3\n",
    "def x := undefined_a + undefined_b + undefined_c\ndef y: Int := \"s\"\ndef z: Str := 1\n",
    "class E1: Exception\nclass E2: Exception\nclass E3: Exception\ndef f() -> Int raise [E1, E2, E3] => 1\ndef g() -> Int =>\n    def a := f() handle\n        e: E1 => 1\n        e: E2 => 2\n        e: E3 => 3\n    a\n",
    "def d := {1 => \"a\", 2 => \"b\", 3 => \"c\"}\ndef s := {3, 1, 2}\nfor k in s do print(k)\n",
]


def run(tier):
    chk = vlib.Check(PROP, tier)
    vh = vlib.build_harness()
    r = vlib.tlc("MC_Session", "MC_Session.cfg")
    chk.add_tlc(r)
    hist_pool = STRESS[:6]
    reps = 20 if tier == "quick" else 40
    progs = families.all_programs(chk, depth_values=0, depth_verdict=0, only=("MC_C01", "MC_C05", "MC_C08"))
    # every order of fields, named and operator methods in a class body (spec/MC_C17.tla OrderShapes): the generator sorts them
    import probes
    orders = [c["src"] for c in probes.generate(chk, "MC_C17", ["shapes"], 0) if c["kind"] == "member-order"]
    rng = corpus.rng_for(PROP, vlib.seed())
    pool = list(STRESS) + orders[:: (4 if tier == "quick" else 2)] + [p["src"] for p in progs[:: (9 if tier == "quick" else 2)]] + [t for _, t in corpus.repo_samples()[:: (3 if tier == "quick" else 1)]]
    pool = [s for s in dict.fromkeys(pool) if len(s) < 5000]
    # isolated responses: one fresh process per batch, each input once (annotate on: class bodies and unions are rendered)
    def serve(records):
        res, dead = vlib.run_vh_isolated(vh, ["session"], records, chunk=1, timeout=600)
        if dead:
            raise vlib.ToolError("session worker died: %s" % dead)
        return res
    SH = 16
    shards = [list(range(len(pool)))[k::SH] for k in range(SH)]

    def sharded(reps_, threads_, reverse=False):
        """one process, 16 worker threads, each serving its shard of the pool; returns {pool index: [responses]}"""
        recs = [{"id": k, "pool": [pool[i] for i in sh], "history": (list(range(len(sh)))[::-1] if reverse else list(range(len(sh)))) if not reps_ else [],
                 "reps": reps_, "threads": threads_} for k, sh in enumerate(shards)]
        res, dead = vlib.run_vh_isolated(vh, ["session"], recs, chunk=SH, timeout=900)
        if dead:
            raise vlib.ToolError("session worker died: %s" % dead)
        out = {}
        for k, sh in enumerate(shards):
            o = res[k]
            for h in o["history"]:
                out.setdefault(sh[h["i"]], []).append(h["r"])
            for e in o["repeat"] + o["threaded"]:
                out.setdefault(sh[e["i"]], []).extend(e["rs"])
        return out

    iso_map = sharded(0, 0)
    iso_resp = [iso_map[i][0] for i in range(len(pool))]
    iso_hist = iso_resp[:len(STRESS)][:6]
    # histories, each in its own process (batched: one record per history, records run in parallel threads of one harness
    # process would share nothing but the allocator; to keep "one process per history" honest we use small batches)
    hrecs = [{"id": i, "pool": hist_pool, "history": [x - 1 for x in c["history"]], "reps": 0, "threads": 0} for i, c in enumerate(r.records)]
    hres, dead = vlib.run_vh_isolated(vh, ["session"], hrecs, chunk=8, timeout=600)
    obs = []
    for i, c in enumerate(r.records):
        o = hres[i]
        obs.append({"id": "h%d" % i, "kind": "history", "history": c["history"], "resp": [h["r"] for h in o["history"]], "iso": iso_hist})
    # repetitions, threads, fresh processes
    seen = {i: set() for i in range(len(pool))}
    for i, rs in sharded(reps, 4).items():
        seen[i].update(rs)
    for k in range(2 if tier == "quick" else 6):
        for i, rs in sharded(0, 0, reverse=bool(k % 2)).items():
            seen[i].update(rs)
    for i in range(len(pool)):
        obs.append({"id": "p%d" % i, "kind": "repeat", "iso": iso_resp[i], "seen": sorted(seen[i])})
    verdicts, states, trans = vlib.judge("SessionJudge", "SessionJudge.cfg", obs)
    chk.states += states
    chk.transitions += trans
    chk.cmds.append("tlc SessionJudge.tla (TRACE=<responses of histories, repetitions, threads, processes>)")
    if len(verdicts) != len(obs):
        raise vlib.ToolError("judge returned %d verdicts for %d observations" % (len(verdicts), len(obs)))
    ob = {o["id"]: o for o in obs}
    for v in verdicts:
        o = ob[v["id"]]
        chk.evaluations += 1
        chk.traces += 1
        if v["v"] == "ok":
            chk.nontriv(v["id"])
            continue
        if o["kind"] == "history":
            chk.violation({"history": o["history"], "responses": o["resp"], "isolated": o["iso"], "pool": hist_pool, "clause": v["v"],
                           "what": "%s: history %s" % (v["v"], o["history"])}, key="hist" + json.dumps(o["history"]))
        else:
            src = pool[int(v["id"][1:])]
            chk.violation({"input": src, "isolated": o["iso"], "responses_seen": o["seen"], "clause": v["v"],
                           "what": "%s: %d different responses for %r" % (v["v"], len(set(o["seen"]) | {o["iso"]}), src[:80])}, key=src)
    chk.sample({"history": r.records[-1]["history"], "responses": obs[len(r.records) - 1]["resp"]})
    chk.sample({"input": pool[0], "distinct_responses_over_%d_repetitions_threads_and_fresh_processes" % reps: len(seen[0])})
    chk.extra["pool"] = len(pool)
    chk.extra["histories"] = len(r.records)
    chk.exhaustive = False
    chk.rule = ("all %d histories of length <= 3 over a pool of 6 stress inputs (enumerated by TLC), each replayed in one process; %d inputs "
                "(stress programs, family programs, samples) x %d repetitions + 4 concurrent threads each (16 shards in parallel) + fresh processes; non-trivial = distinct "
                "histories / inputs whose responses were compared" % (len(r.records), len(pool), reps))
    chk.assumptions = ["hash orders cannot be forced from outside: every HashMap/HashSet instance gets fresh keys, so repetition samples orders; "
                       "a k-way tie is missed with probability <= (1 - 1/k!)^reps", "responses are compared by digest of all outputs / diagnostics"]
    return chk.finish()


def replay(path):
    print("replay for C12 re-runs the quick check")
    return run("quick")
