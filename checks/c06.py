"""C06 - null safety: None and T? never flow into non-nullable positions (spec/MC_C06.tla, VerdictJudge.tla)."""
import json

import probes
import vlib

PROP = "C06"
PARTS = ["init", "assign", "field", "arg", "return", "use"]


def explain(case, verdict, runs):
    n = case["note"]
    if (verdict == "violation:conforming-use-rejected" and case["kind"] == "null-return" and n["T"] == "Bool" and n["target_nullable"]
            and n.get("shape") == "implicit" and n["source"] in ("value", "defaulted")):
        return "KF-C06-1"
    if verdict == "violation:conforming-use-rejected" and case["kind"] == "null-return-twin":
        return "KF-C06-2"
    return None


def run(tier):
    chk = vlib.Check(PROP, tier)
    vh = vlib.build_harness()
    depth = 1 if tier == "quick" else 2
    cases = probes.generate(chk, "MC_C06", PARTS, depth)
    runs = probes.transpile(vh, cases)
    results = probes.judge_verdicts(chk, cases, runs)
    probes.record(chk, results, runs, explain)
    chk.exhaustive = True
    chk.rule = ("spec/MC_C06.tla: T in {Int, Str, Bool, Float, A} x position (initialiser, reassignment, field write, function / "
                "constructor argument, return value, operand / receiver) x source (None, T?, T, `x ? d`) x target (T, T?) under every "
                "context nesting of depth <= %d; non-trivial = distinct programs with a compiler verdict" % depth)
    chk.assumptions = ["the renderer lib/render.py prints the abstract syntax faithfully"]
    return chk.finish()


def replay(path):
    payload = json.load(open(path))
    vh = vlib.build_harness()
    runs = vlib.run_vh(vh, ["transpile"], records=[{"id": 0, "src": payload["program"]}])[0]["runs"]
    got = probes.verdict_of(runs[0])
    print("expected %s, observed %s" % (payload["expected"], got))
    if got != payload["expected"] and got != "panic":
        print("VIOLATION property=%s replay=%s" % (PROP, path))
        return 1
    print("REPLAY ok")
    return 0
