"""C16 - emitted modules are self-contained: generator-used names are imported once, before use.

Faithful layer : spec/Imports.tla models the generator's import accumulator; TLC checks no-duplicates / sorted / present-iff-
                 registered for every operation sequence up to length L (R1), emits each sequence (R2); the sequence is replayed on the
                 REAL Imports object (guarded re-export) and spec/ImportsTrace.tla steps the spec through the same operations and compares
                 the rendered import lines after every step (exact conformance, decisive for "exactly once").
Emitted modules: programs using every construct that needs a support import (spec/MC_C16.tla: alone, in pairs, at top level, in
                 functions, classes, nested annotations, handled definitions, under the context grid), the other families, the samples;
                 both annotate modes; py/pyapi.py reads unbound names and import statements off the module; spec/ClosedJudge.tla decides.
"""
import json
import re

import corpus
import families
import probes
import pyfacts
import vlib

PROP = "C16"
SUPPORT = {"math", "typing", "abc", "Optional", "Union", "Tuple", "Callable", "Any", "NewType", "ABC", "abstractmethod", "List", "Set", "Dict"}
IDENT = re.compile(r"[A-Za-z_][A-Za-z_0-9]*")
IMPORT = re.compile(r"^(?:from (\S+) )?import (.+)$", re.M)


def user_imports(src):
    """the import bindings of a source text as 'module|name|alias' (top-level statements only)"""
    out = []
    for m in IMPORT.finditer(src):
        mod, rest = m.group(1) or "", m.group(2)
        names = rest.split(" as ")
        al = names[1].strip() if len(names) > 1 else ""
        for n in names[0].split(","):
            n = n.strip()
            if n:
                out.append("%s|%s|%s" % (mod, n, al))
    return out


def replay_imports(chk, vh, tier):
    r = vlib.tlc("Imports", "Imports.cfg", constants=None if tier == "quick" else None)
    chk.add_tlc(r)
    seqs = [{"id": i, "ops": c["ops"]} for i, c in enumerate(r.records)]
    real = vlib.run_vh(vh, ["imports-replay"], records=seqs)
    verdicts, states, trans = vlib.judge("ImportsTrace", "ImportsTrace.cfg", real, chunk=20000, xss="512m")
    chk.states += states
    chk.transitions += trans
    chk.cmds.append("tlc ImportsTrace.tla (TRACE=<import lines of the real accumulator after every replayed operation>)")
    done = {v["id"]: v for v in verdicts}
    if len(done) != len(real):
        raise vlib.ToolError("import replay: %d verdicts for %d sequences" % (len(done), len(real)))
    for o in real:
        v = done[o["id"]]
        chk.evaluations += 1
        chk.traces += 1
        if v["v"] == "ok":
            if len(o["ops"]) >= 3:
                chk.nontriv("ops:" + json.dumps(o["ops"]))
            continue
        chk.violation({"operations": o["ops"], "real_import_lines_after_each_step": o["lines"], "failed_at_step": v["l"], "clause": v["v"],
                       "what": "the real import accumulator diverges from spec/Imports.tla at step %d of %s" % (v["l"], [(x["op"], x["m"], x["n"]) for x in o["ops"]])},
                      key=json.dumps(o["ops"]))
    chk.sample({"operations": real[-1]["ops"], "real_import_lines": real[-1]["lines"][-1] if real[-1]["lines"] else []})
    return len(real)


def run(tier):
    chk = vlib.Check(PROP, tier)
    vh = vlib.build_harness()
    n_seq = replay_imports(chk, vh, tier)
    cases = probes.generate(chk, "MC_C16", ["single", "pairs"], 1 if tier == "quick" else 2)
    for c in cases:
        c["origin"] = "MC_C16/" + c["kind"]
        c["source_names"] = sorted(set(IDENT.findall(c["src"])))
    n = len(cases)
    for p in families.all_programs(chk, depth_values=0 if tier == "quick" else 1, depth_verdict=0, only=("MC_C01", "MC_C06", "MC_C08"), gen=150 if tier == "quick" else 1000, forms=True):
        cases.append({"id": n, "src": p["src"], "origin": "%s/%s" % (p["family"], p["kind"]), "source_names": sorted(set(IDENT.findall(p["src"])))})
        n += 1
    for rel, text in corpus.repo_samples(kinds=("valid",)):
        cases.append({"id": n, "src": text, "origin": "sample:" + rel, "source_names": sorted(set(IDENT.findall(text)))})
        n += 1
    for i, c in enumerate(cases):
        c["id"] = i
    tr = probes.transpile(vh, cases)
    mods = []
    for c in cases:
        for mode, run_ in zip(("off", "on"), tr[c["id"]]):
            if run_["ok"]:
                mods.append(("%d/%s" % (c["id"], mode), run_["out"][0], None))
    facts = pyfacts.facts(mods)
    obs = []
    for c in cases:
        for mode, run_ in zip(("off", "on"), tr[c["id"]]):
            key = "%d/%s" % (c["id"], mode)
            f = facts.get(key)
            is_family = not c["origin"].startswith("sample")
            names = set(c["source_names"])
            # what the source itself leaves free: for generated programs nothing (every name is defined in them); for samples every
            # identifier of the source text may be an import / external name of the user's
            source_free = [] if is_family else sorted(names)
            used = sorted({i_["name"] for i_ in (f["imports"] if f else [])} & SUPPORT)
            referenced = sorted(set(IDENT.findall(run_["out"][0])) & SUPPORT) if run_["ok"] else []
            # import problems concern the imports the GENERATOR adds (the user's own import statements are reproduced where they stand):
            # a generated import must come before every other statement and must not bind what another import already binds
            ui = set(user_imports(c["src"])) if is_family else None
            problems = []
            if f:
                keys = ["%s|%s|%s" % (i_["module"] or "", i_["name"], i_["as"] or "") for i_ in f["imports"]]
                for i_, key_ in zip(f["imports"], keys):
                    generated = ui is not None and key_ not in ui
                    if ui is None:
                        generated = (i_["module"] in ("typing", "abc") or i_["name"] in ("math",)) and not i_["as"] and i_["index"] == 0
                    if generated and i_.get("late"):
                        problems.append("generated import of %s after another statement" % i_["name"])
                    if keys.count(key_) > 1 and (ui is None or generated or key_ in ui):
                        problems.append("duplicate import of %s" % key_)
            obs.append({"id": key, "acc": bool(run_["ok"]), "parses": bool(f and f["ok"]), "unbound": f["unbound"] if f else [],
                        "source_free": source_free, "source_names": sorted(names & SUPPORT), "problems": sorted(set(problems)),
                        "support_used": [x for x in referenced if x not in ("typing", "abc")], "support_imported": used,
                        "user_imports": user_imports(c["src"]) if is_family else [],
                        "imports": ["%s|%s|%s" % (i_["module"] or "", i_["name"], i_["as"] or "") for i_ in (f["imports"] if f else [])]})
    verdicts, states, trans = vlib.judge("ClosedJudge", "ClosedJudge.cfg", obs, chunk=30000)
    chk.states += states
    chk.transitions += trans
    chk.cmds.append("tlc ClosedJudge.tla (TRACE=<unbound names and import statements of every emitted module>)")
    if len(verdicts) != len(obs):
        raise vlib.ToolError("judge returned %d verdicts for %d observations" % (len(verdicts), len(obs)))
    by = {c["id"]: c for c in cases}
    ob = {o["id"]: o for o in obs}
    counts = {}
    for v in verdicts:
        i, mode = v["id"].split("/")
        c = by[int(i)]
        chk.evaluations += 1
        fam = c["origin"].split(":")[0].split("/")[0]
        counts["%s/%s" % (fam, v["v"])] = counts.get("%s/%s" % (fam, v["v"]), 0) + 1
        if v["v"].startswith("skip"):
            continue
        chk.traces += 1
        o = ob[v["id"]]
        if v["v"] == "ok":
            if o["support_imported"]:
                chk.nontriv(c["src"] + mode)
            if len(chk.samples) < 4 and c["origin"].startswith("MC_C16") and "+" in c["origin"] and mode == "on" and int(i) % 37 == 0:
                chk.sample({"program": c["src"][-300:], "annotate": mode, "support_imports": o["support_imported"], "verdict": "ok"})
            continue
        text = tr[c["id"]][0 if mode == "off" else 1]["out"][0]
        fid = explain(c, v["v"], o, text)
        if fid and fid in chk.kf:
            chk.known(fid)
            continue
        chk.violation({"program": c["src"], "origin": c["origin"], "annotate": mode, "clause": v["v"], "unbound": o["unbound"], "import_problems": o["problems"],
                       "support_used": o["support_used"], "support_imported": o["support_imported"], "emitted_python": text,
                       "what": "%s (%s, annotate %s): unbound %s, used %s, imported %s %s" % (v["v"], c["origin"], mode, o["unbound"], o["support_used"], o["support_imported"], o["problems"])},
                      key=v["v"] + c["origin"] + mode)
    chk.extra["verdict_counts"] = counts
    chk.extra["import_sequences_replayed"] = n_seq
    chk.exhaustive = True
    chk.rule = ("all %d operation sequences of length <= 4 over the 9 support imports replayed on the real accumulator; programs of spec/MC_C16.tla "
                "(14 constructs alone under the context grid, all ordered pairs), programs of the C01 / C06 / C08 families, valid samples; annotate "
                "off and on; non-trivial = distinct (program, mode) with at least one support import, and operation sequences of length >= 3" % n_seq)
    chk.assumptions = ["for repository samples every identifier of the source text counts as possibly bound by the user's own imports",
                       "support names: math, Optional, Union, Tuple, Callable, Any, NewType, ABC, abstractmethod, List, Set, Dict"]
    return chk.finish()


def explain(c, verdict, o, text):
    if verdict == "violation:support-import-duplicated-or-not-at-the-top" and o["problems"]:
        ui = set(user_imports(c["src"]))
        def dup_of_user_from_import(p):
            if not p.startswith("duplicate import of "):
                return False
            key = p[len("duplicate import of "):]
            mod = key.split("|")[0]
            return mod in ("typing", "abc") and key in ui and re.search(r"^from %s import \w+, " % mod, text, re.M) is not None
        if all(dup_of_user_from_import(p) for p in o["problems"]):
            return "KF-C16-1"
    return None


def replay(path):
    print("replay for C16 re-runs the quick check")
    return run("quick")
