"""C05 - declared signatures are enforced: conforming uses pass, others are rejected (spec/MC_C05.tla, VerdictJudge.tla)."""
import json

import probes
import vlib

PROP = "C05"
PARTS = ["call", "method", "ctor", "return", "init", "tuple", "result"]


def explain(case, verdict, runs):
    return None


def run(tier):
    chk = vlib.Check(PROP, tier)
    vh = vlib.build_harness()
    depth = 1 if tier == "quick" else 2
    cases = probes.generate(chk, "MC_C05", PARTS, depth)
    runs = probes.transpile(vh, cases)
    results = probes.judge_verdicts(chk, cases, runs)
    probes.record(chk, results, runs, explain)
    chk.exhaustive = True
    chk.rule = ("every probe of spec/MC_C05.tla (conforming use + all single-point non-conforming mutations of calls, method calls, "
                "constructor calls, returns, annotated initialisers) under every context nesting of depth <= %d, setup inside or "
                "hoisted; non-trivial = distinct programs with a compiler verdict (no panic)" % depth)
    chk.assumptions = ["subtyping limited to Int <: Float <: Complex, class inheritance, Any",
                       "the renderer lib/render.py prints the abstract syntax faithfully"]
    return chk.finish()


def replay(path):
    payload = json.load(open(path))
    vh = vlib.build_harness()
    runs = vlib.run_vh(vh, ["transpile"], records=[{"id": 0, "src": payload["program"]}])[0]["runs"]
    got = probes.verdict_of(runs[0])
    print("expected %s, observed %s" % (payload["expected"], got))
    if got != payload["expected"] and got != "panic":
        print("VIOLATION property=%s replay=%s" % (PROP, path))
        return 1
    print("REPLAY ok")
    return 0
