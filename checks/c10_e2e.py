"""C10 end-to-end: typed expression trees as Mamba SOURCE TEXT (every operand parenthesised, so the grouping of the tree is what the
Mamba parser must build) through the whole pipeline; the right-hand side of the emitted assignment is parsed by CPython and must be
the same tree (spec/PyExprJudge.tla, same clause as for the printer alone)."""
import ast
import json
import subprocess
import sys
import os

import vlib

MAMBA_OP = {"%": "mod", "**": "^", "==": "="}
sys.path.insert(0, vlib.PYDIR)


def mamba(t):
    k = t["k"]
    if k in ("id", "int"):
        return t["v"]
    if k == "bin":
        return "%s %s %s" % (operand(t["l"]), MAMBA_OP.get(t["op"], t["op"]), operand(t["r"]))
    if k == "un":
        return ("not %s" if t["op"] == "not" else "-%s") % operand(t["e"])
    if k == "tern":
        return "if %s then %s else %s" % (operand(t["c"]), operand(t["t"]), operand(t["e"]))
    raise ValueError(k)


def operand(t):
    s = mamba(t)
    return s if t["k"] in ("id", "int") else "(" + s + ")"


def sources(chk, step=1):
    """the Mamba source of every typed expression tree of family e2e (also used by C02: whatever is accepted must compile)"""
    r = vlib.tlc("MC_PyExpr", "MC_PyExpr.cfg", constants={"Family": '"e2e"'}, xss="1g")
    chk.add_tlc(r)
    return ["def a: Int := 7\ndef t: Bool := True\ndef r: %s := %s\n" % (c["ty"], mamba(c["tree"])) for c in r.records[::step]]


def run(chk, tier, vh):
    import pyexpr
    r = vlib.tlc("MC_PyExpr", "MC_PyExpr.cfg", constants={"Family": '"e2e"'}, xss="1g")
    chk.add_tlc(r)
    cases = r.records
    if tier == "quick":
        cases = cases[::2]
    recs = []
    for i, c in enumerate(cases):
        c["id"] = i
        c["src"] = "def a: Int := 7\ndef t: Bool := True\ndef r: %s := %s\n" % (c["ty"], mamba(c["tree"]))
        recs.append({"id": i, "src": c["src"], "annotate": [False]})
    out = {o["id"]: o["runs"][0] for o in vlib.run_vh(vh, ["transpile"], records=recs)}
    obs, rejected = [], 0
    for c in cases:
        run_ = out[c["id"]]
        if not run_["ok"]:
            rejected += 1
            continue
        try:
            tree = ast.parse(run_["out"][0])
            rhs = [st.value for st in tree.body if isinstance(st, (ast.Assign, ast.AnnAssign)) and getattr(st, "targets", [getattr(st, "target", None)])[0].id == "r"][0]
            back = pyexpr.tree(rhs)
            text = ast.unparse(rhs)
        except Exception as e:          # output does not parse / has no such assignment
            back, text = {"k": "error", "why": str(e)}, run_["out"][0]
        obs.append({"id": c["id"], "tree": c["tree"], "back": back, "toks": [], "ok": False, "text": text})
    verdicts, states, trans = vlib.judge("PyExprJudge", "PyExprJudge.cfg", obs, chunk=50000)
    chk.states += states
    chk.transitions += trans
    by = {c["id"]: c for c in cases}
    ob = {o["id"]: o for o in obs}
    for v in verdicts:
        c = by[v["id"]]
        chk.evaluations += 1
        chk.traces += 1
        if v["v"] == "ok":
            chk.nontriv("e2e:" + c["src"])
            continue
        chk.violation({"mamba_source": c["src"], "tree": c["tree"], "emitted_expression": ob[v["id"]]["text"], "python_parsed_it_as": ob[v["id"]]["back"], "clause": "end-to-end:" + v["v"],
                       "what": "Mamba %r is emitted as %r, another tree" % (mamba(c["tree"]), ob[v["id"]]["text"][:80])}, key=c["src"])
    chk.extra["end_to_end"] = {"trees": len(cases), "rejected_by_the_checker": rejected, "compared": len(obs)}
    chk.sample({"mamba_source": cases[-1]["src"], "emitted_expression": ob.get(cases[-1]["id"], {}).get("text")})
