def run(chk, tier, vh):
    pass
