"""C07 - immutability: fin variables, fields and parameters are never reassigned (spec/MC_C07.tla, VerdictJudge.tla)."""
import json

import probes
import vlib

PROP = "C07"
PARTS = ["var", "member", "shadow"]


def explain(case, verdict, runs):
    n = case["note"]
    if (verdict == "violation:non-conforming-use-accepted" and case["kind"] == "fin-member" and not n["mutable"] and n["recv_mutable"]):
        return "KF-C07-1"
    # a two-branch construct nested in a later branch (else / arm): what follows it in that branch is constrained in the sibling branches too
    if (verdict == "violation:conforming-use-rejected" and case["kind"] == "fin-shadow" and n["write"] == "aug"
            and n["form"].startswith(("outer-mut-after-match-arm-", "outer-mut-after-handle-arm-"))
            and any(w in ("else", "arm", "harm") for w in case["ctx"])
            and all((not r["ok"]) and r["errs"] and r["errs"][0].startswith("Cannot infer type within __add__") for r in runs)):
        return "KF-C07-2"
    return None


def run(tier):
    chk = vlib.Check(PROP, tier)
    vh = vlib.build_harness()
    depth = 1 if tier == "quick" else 2
    cases = probes.generate(chk, "MC_C07", PARTS, depth)
    runs = probes.transpile(vh, cases)
    results = probes.judge_verdicts(chk, cases, runs)
    probes.record(chk, results, runs, explain)
    chk.exhaustive = True
    chk.rule = ("spec/MC_C07.tla: definition form (plain, annotated, tuple, parameter, loop variable, class argument, class field) x "
                "fin/mutable x write (:=, +=) x path (direct, receiver, fin receiver, self, fin self) x shadowing patterns, under every "
                "context nesting of depth <= %d, definition inside or hoisted; non-trivial = distinct programs with a verdict" % depth)
    chk.assumptions = ["a for-loop variable may be treated as mutable or not (undocumented): both verdicts allowed",
                       "the renderer lib/render.py prints the abstract syntax faithfully"]
    return chk.finish()


def replay(path):
    payload = json.load(open(path))
    vh = vlib.build_harness()
    runs = vlib.run_vh(vh, ["transpile"], records=[{"id": 0, "src": payload["program"]}])[0]["runs"]
    got = probes.verdict_of(runs[0])
    print("expected %s, observed %s" % (payload["expected"], got))
    if got != payload["expected"] and got != "panic":
        print("VIOLATION property=%s replay=%s" % (PROP, path))
        return 1
    print("REPLAY ok")
    return 0
