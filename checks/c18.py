"""C18 - token positions are exact, indentation tokens balanced, one Eof, canonical re-lexing.

R2: spec/LexInputs.tla enumerates the bounded-exhaustive input families (all strings over the position-relevant
    alphabets, all ordered pairs of the token vocabulary x separators).
R3: the real lexer's token streams (hook mamba::verif_hooks::lex) for those inputs, for every repository sample
    and for seeded token-level mutants are validated by TLC against the abstract lexer of spec/LexerTrace.tla.
R1: spec/Lexer.tla, the implementation-shaped lexer state machine, is model-checked against the same abstract
    properties on the same string families (see c18_model()).
"""
import json
import os

import corpus
import vlib

PROP = "C18"

BOUNDS = {
    "quick":    {"full": 4, "lines": 6, "indent": 7, "interp": 6, "ilines": 6, "mutants_per_sample": 3, "model_n": 4},
    "thorough": {"full": 5, "lines": 8, "indent": 9, "interp": 8, "ilines": 7, "mutants_per_sample": 40, "model_n": 5},
}


def text_of(rec):
    if "src" in rec:
        return rec["src"]
    return "".join(rec["parts"])


def gather_inputs(chk, tier):
    b = BOUNDS[tier]
    inputs = []
    for alpha in ("full", "lines", "indent", "interp", "doc", "ilines"):
        r = vlib.tlc("LexInputs", "LexInputs.cfg",
                     constants={"Family": '"strings"', "N": b.get(alpha, 6), "AlphaName": '"%s"' % alpha})
        chk.add_tlc(r)
        inputs += r.records
    r = vlib.tlc("LexInputs", "LexInputs.cfg", constants={"Family": '"pairs"', "N": 0, "AlphaName": '"full"'})
    chk.add_tlc(r)
    inputs += r.records
    n_model = len(inputs)
    rng = corpus.rng_for(PROP, vlib.seed())
    for rel, text in corpus.repo_samples():
        inputs.append({"fam": "sample", "name": rel, "src": text})
        for j in range(b["mutants_per_sample"]):
            m, ops = corpus.mutate(text, rng, n=rng.choice([1, 1, 2]))
            inputs.append({"fam": "mutant", "name": "%s#%d:%s" % (rel, j, "+".join(ops)), "src": m})
    for i, rec in enumerate(inputs):
        rec["id"] = i
        if "src" not in rec:
            rec["src"] = "".join(rec.pop("parts"))
    return inputs, n_model


def judge(chk, vh, inputs):
    obs = vlib.run_vh(vh, ["lex"], records=[{"id": r["id"], "src": r["src"]} for r in inputs])
    verdicts, states, trans = vlib.judge("LexerTrace", "LexerTrace.cfg", obs, chunk=60000)
    chk.states += states
    chk.transitions += trans
    chk.cmds.append("tlc LexerTrace.tla (TRACE=<recorded token streams>)")
    if len(verdicts) != len(obs):
        raise vlib.ToolError("judge returned %d verdicts for %d observations" % (len(verdicts), len(obs)))
    return obs, {v["id"]: v for v in verdicts}


def classify(chk, inputs, obs, verdicts):
    by_id = {r["id"]: r for r in inputs}
    obs_by_id = {o["id"]: o for o in obs}
    counts = {}
    for i, v in verdicts.items():
        rec = by_id[i]
        fam = rec["fam"]
        key = v["v"].split(":")[0]
        counts[(fam, key)] = counts.get((fam, key), 0) + 1
        chk.evaluations += 1
        if v["v"].startswith("skip"):
            continue
        chk.traces += 1
        if obs_by_id[i]["toks"] and len(obs_by_id[i]["toks"]) > 1:
            chk.nontriv(rec["src"])
        if v["v"] == "ok":
            if len(rec["src"]) > 6:
                chk.sample({"input": rec["src"][:120], "tokens": len(obs_by_id[i]["toks"]), "verdict": "ok"})
            continue
        o = obs_by_id[i]
        tok = o["toks"][v["k"]] if v["k"] < len(o["toks"]) else None
        chk.violation({"input": rec["src"], "family": fam, "name": rec.get("name", ""), "clause": v["v"],
                       "token_index": v["k"],
                       "token": None if tok is None else {"kind": tok["k"], "spelling": "".join(tok["lx"]),
                                                          "start": [tok["sl"], tok["sc"]], "end": [tok["el"], tok["ec"]]},
                       "what": "%s at token %d of %r" % (v["v"], v["k"], rec["src"][:80])},
                      key=rec["src"])
    chk.extra["verdict_counts"] = {"%s/%s" % k: n for k, n in sorted(counts.items())}


def run(tier):
    chk = vlib.Check(PROP, tier)
    vh = vlib.build_harness()
    inputs, n_model = gather_inputs(chk, tier)
    vlib.log("%d inputs (%d enumerated by TLC)" % (len(inputs), n_model))
    obs, verdicts = judge(chk, vh, inputs)
    classify(chk, inputs, obs, verdicts)
    import c18_model
    c18_model.run(chk, tier, vh)
    chk.exhaustive = True
    chk.rule = ("inputs: every string of <= N parts over the alphabets of spec/LexInputs.tla (full/lines/indent), every ordered "
                "pair of the 97-spelling vocabulary x 3 separators (enumerated by TLC), every repository sample, seeded "
                "token-level mutants; non-trivial = distinct accepted ASCII inputs with >= 1 token besides Eof that the "
                "abstract lexer judged")
    chk.assumptions = ["columns are judged on ASCII inputs only (the lexer counts bytes, editors count characters)",
                       "positions of NL/Indent/Dedent are structural and not judged; Eof must not precede the last token",
                       "TLC 1.8 and the Json/IOUtils community modules; the harness's source spelling of doc-strings"]
    return chk.finish()


def replay(path):
    payload = json.load(open(path))
    vh = vlib.build_harness()
    chk = vlib.Check(PROP, "quick")
    inputs = [{"id": 0, "fam": payload.get("family", "replay"), "src": payload["input"]}]
    obs, verdicts = judge(chk, vh, inputs)
    v = verdicts[0]["v"]
    if v.startswith("violation"):
        print("VIOLATION property=%s replay=%s" % (PROP, path))
        print("  " + v)
        return 1
    print("REPLAY ok (%s)" % v)
    return 0
