"""C15 - renaming user identifiers commutes with transpilation.

R2: spec/Rename.tla enumerates the renamings (kind x index x target over a pool of ordinary and colliding / special-looking names, and
    the total fresh renaming); lib/rename.py applies each to the abstract syntax of every program of the C01 family (and a slice of the
    verdict probes).
R3: p and pi(p) are rendered and transpiled (both annotate modes); py/pyapi.py applies pi to the Python AST of out(p); TLC
    (spec/EqualJudge.tla) requires the same verdict and  pi(ast(out(p))) = ast(out(pi p)).
"""
import json

import families
import pyfacts
import rename
import render
import vlib

PROP = "C15"


def explain(c, verdict):
    return None


def run(tier):
    chk = vlib.Check(PROP, tier)
    vh = vlib.build_harness()
    r = vlib.tlc("Rename", "Rename.cfg", constants=None)
    chk.add_tlc(r)
    renamings = sorted(r.records[0]["renamings"], key=lambda x: (x["kind"], x["index"], x["to"]))
    renamings += sorted(r.records[0]["prefix_pairs"], key=lambda x: (x["kind"], x["index"], x["other"]))
    progs = families.all_programs(chk, depth_values=0 if tier == "quick" else 1, depth_verdict=0, only=("MC_C01", "MC_C05", "MC_C07", "MC_C08"))
    import probes
    scoped = probes.generate(chk, "MC_C15", ["all"], 0)
    for p in scoped:
        p["family"] = "MC_C15"
    base = [p for p in progs if p["family"] == "MC_C01"]
    others = [p for p in progs if p["family"] != "MC_C01"]
    if tier == "quick":
        base = base[::2]
        others = others[::25]
    else:
        others = others[::4]
    variants = []
    merges = sorted(r.records[0]["merge_pairs"], key=lambda x: (x["index"], x["other"]))
    for p in scoped:
        if not p["kind"].startswith("sibling"):
            continue
        pool = rename.collect(p["prog"])["var"]
        for rn in merges:
            if max(rn["index"], rn["other"]) > len(pool):
                continue
            m = {pool[rn["index"] - 1]: pool[rn["other"] - 1]}
            src, _ = render.program(rename.apply(p["prog"], m))
            variants.append({"orig": p["src"], "variant": src, "map": m, "origin": "MC_C15/%s" % p["kind"], "renaming": rn})
    for p in scoped + base + others:
        names = rename.collect(p["prog"])
        allnames = [n for k in names for n in names[k]]
        for rn in renamings:
            if rn["kind"] == "all":
                m = {n: (n + "_rn" if n[0].islower() or n[0] == "_" else n + "Rn") for n in allnames}
            elif rn["to"] == "<prefix-pair>":
                pool = names[rn["kind"]]
                if max(rn["index"], rn["other"]) > len(pool) or "pfx" in allnames or "pfx_count" in allnames:
                    continue
                m = {pool[rn["index"] - 1]: "pfx", pool[rn["other"] - 1]: "pfx_count"}
                q = rename.apply(p["prog"], m)
                src, _ = render.program(q)
                variants.append({"orig": p["src"], "variant": src, "map": m, "origin": "%s/%s" % (p["family"], p["kind"]), "renaming": rn})
                continue
            else:
                pool = names[rn["kind"]]
                if rn["index"] > len(pool):
                    continue
                old = pool[rn["index"] - 1]
                if rn["to"] in allnames:
                    continue          # the renaming must stay injective
                m = {old: rn["to"]}
            q = rename.apply(p["prog"], m)
            src, _ = render.program(q)
            variants.append({"orig": p["src"], "variant": src, "map": m, "origin": "%s/%s" % (p["family"], p["kind"]), "renaming": rn})
    if tier == "quick":
        variants = [v for v in variants if v["origin"].startswith("MC_C15")] + [v for v in variants if not v["origin"].startswith("MC_C15")][::3]
    texts = list(dict.fromkeys([v["orig"] for v in variants] + [v["variant"] for v in variants]))
    idx = {t: i for i, t in enumerate(texts)}
    results, dead = vlib.run_vh_isolated(vh, ["transpile"], [{"id": i, "src": t, "annotate": [False, True]} for i, t in enumerate(texts)], chunk=800, timeout=300)
    mods = []
    for i, v in enumerate(variants):
        for mi, mode in enumerate(("off", "on")):
            a, b = results.get(idx[v["orig"]]), results.get(idx[v["variant"]])
            if a and a["runs"][mi]["ok"]:
                mods.append(("o/%d/%s" % (i, mode), a["runs"][mi]["out"][0], v["map"]))
            if b and b["runs"][mi]["ok"]:
                mods.append(("v/%d/%s" % (i, mode), b["runs"][mi]["out"][0], None))
    facts = pyfacts.facts(mods)
    obs = []
    for i, v in enumerate(variants):
        for mi, mode in enumerate(("off", "on")):
            a, b = results.get(idx[v["orig"]]), results.get(idx[v["variant"]])
            if a is None or b is None:
                obs.append({"id": "%d/%s" % (i, mode), "orig": {"acc": False, "out": ""}, "variant": {"acc": False, "out": ""}, "panic": True})
                continue
            fa, fb = facts.get("o/%d/%s" % (i, mode)), facts.get("v/%d/%s" % (i, mode))
            ra, rb = a["runs"][mi], b["runs"][mi]
            obs.append({"id": "%d/%s" % (i, mode), "orig": {"acc": bool(ra["ok"]), "out": fa["dump"] if fa and fa["ok"] else "unparsable"},
                        "variant": {"acc": bool(rb["ok"]), "out": fb["dump"] if fb and fb["ok"] else "unparsable"},
                        "panic": bool(ra.get("panic") or rb.get("panic"))})
    verdicts, states, trans = vlib.judge("EqualJudge", "EqualJudge.cfg", obs, chunk=60000)
    chk.states += states
    chk.transitions += trans
    chk.cmds.append("tlc EqualJudge.tla (TRACE=<verdict and renamed-AST digest of p and pi(p)>)")
    if len(verdicts) != len(obs):
        raise vlib.ToolError("judge returned %d verdicts for %d observations" % (len(verdicts), len(obs)))
    counts = {}
    for vd in verdicts:
        i, mode = vd["id"].split("/")
        v = variants[int(i)]
        chk.evaluations += 1
        key = "%s->%s/%s" % (v["renaming"]["kind"], v["renaming"]["to"], vd["v"])
        counts[key] = counts.get(key, 0) + 1
        if vd["v"].startswith("skip"):
            continue
        chk.traces += 1
        if vd["v"] == "ok":
            chk.nontriv(v["variant"] + mode)
            if len(chk.samples) < 3 and int(i) % 211 == 0 and mode == "on":
                chk.sample({"renaming": v["map"], "renamed_program": v["variant"][:300], "verdict": "same verdict, renamed output equals output of renamed program"})
            continue
        fid = explain_case(v, vd["v"], mode, results, idx)
        if fid and fid in chk.kf:
            chk.known(fid)
            continue
        rb = results[idx[v["variant"]]]["runs"][0 if mode == "off" else 1]
        ra = results[idx[v["orig"]]]["runs"][0 if mode == "off" else 1]
        chk.violation({"original": v["orig"], "renamed": v["variant"], "renaming": v["map"], "annotate": mode, "clause": vd["v"], "origin": v["origin"],
                       "output_of_original": ra["out"][0] if ra["ok"] else ra["errs"][:1], "output_of_renamed": rb["out"][0] if rb["ok"] else rb["errs"][:1],
                       "what": "%s under %s (%s, annotate %s): %s" % (vd["v"], v["map"], v["origin"], mode, (rb["errs"][0].splitlines()[0] if rb["errs"] else "")[:80])},
                      key="%s|%s|%s" % (vd["v"], json.dumps(v["map"], sort_keys=True), v["origin"].split(" ")[0]))
    chk.extra["verdict_counts"] = {k: n for k, n in counts.items() if not k.endswith("/ok")}
    chk.extra["ok"] = sum(n for k, n in counts.items() if k.endswith("/ok"))
    chk.exhaustive = False
    chk.rule = ("renamings of spec/Rename.tla (kind in {var, fun, class, field, method} x the first 3 names of that kind x a pool of 21 lower-case (incl. s, se, sel: prefixes of self) and "
                "14 class-like targets incl. size, init, super, math, typing, abc, str, int, range, slice, Optional, Union, ABC, Tuple, Any, Callable ..., "
                "the total fresh renaming, and prefix pairs: two names of a kind become pfx and pfx_count) applied to the scoped programs of MC_C15 (with statements with and without alias, nested, in functions and methods, shadowing and binders), the programs of the C01 family and a slice of the C05/C07/C08 probes; annotate off and on; "
                "non-trivial = distinct (renamed program, mode) compared")
    chk.assumptions = ["self, init/__init__ as constructor and operator names are the documented specials and are not renaming targets for those roles",
                       "py/pyapi.py applies the renaming to every identifier position of the Python AST"]
    return chk.finish()


def explain_case(v, verdict, mode, results, idx):
    return None


def replay(path):
    payload = json.load(open(path))
    vh = vlib.build_harness()
    out = vlib.run_vh(vh, ["transpile"], records=[{"id": 0, "src": payload["original"]}, {"id": 1, "src": payload["renamed"]}])
    mi = 0 if payload.get("annotate", "off") == "off" else 1
    a, b = out[0]["runs"][mi], out[1]["runs"][mi]
    bad = a["ok"] != b["ok"]
    if not bad and a["ok"]:
        f = pyfacts.facts([("a", a["out"][0], payload["renaming"]), ("b", b["out"][0], None)])
        bad = f["a"]["dump"] != f["b"]["dump"]
    if bad:
        print("VIOLATION property=%s replay=%s" % (PROP, path))
        return 1
    print("REPLAY ok")
    return 0
