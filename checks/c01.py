"""C01 - accepted programs keep their meaning when run as the emitted Python.

R1+R2: spec/MC_C01.tla - value probes for every construct the property names, plugged under every context nesting; TLC checks
       that each program is inside the reference semantics (spec/MambaDynamic.tla) and emits it.
R3:    each program is rendered, transpiled with annotate off and on, the emitted Python is executed by CPython; TLC
       (spec/RunJudge.tla) evaluates the reference semantics on the program and requires the same printed lines and the
       same ending (normal / class of the uncaught exception) in both modes.
"""
import json

import probes
import runs
import vlib

PROP = "C01"
PARTS = ["ops", "control", "functions", "classes", "errors"]


def explain(case, verdict, o, model):
    if case["kind"] == "error-field-passed-to-parent" and o["off"]["exc"] == "AttributeError" and o["on"]["exc"] == "AttributeError":
        return "KF-C01-1"
    return None


def gather(chk, tier):
    depth = 1 if tier == "quick" else 2
    return probes.generate(chk, "MC_C01", PARTS, depth, cfg="MC_C01.cfg"), depth


def classify(chk, prop, key, cases, obs, verdicts, explain_fn):
    counts = {}
    for c in cases:
        v = verdicts[c["id"]]
        o = obs[c["id"]]
        verdict = v[key]
        k = "%s/%s" % (c["kind"].split(" ")[0], verdict.split(":")[0] if not verdict.startswith("skip") else verdict)
        counts[k] = counts.get(k, 0) + 1
        chk.evaluations += 1
        if verdict.startswith("skip"):
            continue
        chk.traces += 1
        chk.nontriv(c["src"])
        if verdict == "ok":
            if len(chk.samples) < 4 and len(v["model"]["out"]) > 1:
                chk.sample({"program": c["src"], "expected_output": v["model"]["out"], "expected_end": v["model"]["status"], "verdict": "ok"})
            continue
        fid = explain_fn(c, verdict, o, v["model"])
        if fid and fid in chk.kf:
            chk.known(fid)
            continue
        chk.violation({"program": c["src"], "kind": c["kind"], "context": c["ctx"], "hoisted_setup": c["hoist"], "clause": verdict,
                       "reference": v["model"], "observed": {m: {"stdout": o[m]["out"], "exception": o[m]["exc"], "message": o[m]["exc_msg"]} for m in ("off", "on")},
                       "emitted_python": o["off"]["py"],
                       "what": "%s: %s in context %s: reference %s/%s, observed off=%s/%s on=%s/%s" % (
                           verdict, c["kind"], "/".join(c["ctx"]) or "top", v["model"]["out"][:6], v["model"]["status"],
                           o["off"]["out"][:6], o["off"]["exc"] or "ok", o["on"]["out"][:6], o["on"]["exc"] or "ok")},
                      key=c["src"])
    chk.extra.setdefault("verdict_counts", {}).update(counts)


def run(tier):
    chk = vlib.Check(PROP, tier)
    vh = vlib.build_harness()
    cases, depth = gather(chk, tier)
    obs = runs.observe(vh, cases)
    verdicts = runs.judge_runs(chk, cases, obs)
    classify(chk, PROP, "c01", cases, obs, verdicts, explain)
    chk.exhaustive = True
    chk.rule = ("value probes of spec/MC_C01.tla (operators and grouping, comparisons, logic, strings, if expression / statement, match, "
                "while, for over exclusive / inclusive ranges with positive / negative / absent step and over lists, functions with implicit "
                "/ explicit / nested return and defaults, classes with class arguments, fields, parents, explicit __init__, methods, field "
                "update, raise / handle with hierarchy) under every context nesting of depth <= %d, setup inside or hoisted, annotate off "
                "and on; non-trivial = distinct accepted programs whose behaviour was compared with the reference semantics" % depth)
    chk.assumptions = ["CPython 3.11 executes the emitted module; only printed lines and the class of an uncaught exception are observed",
                       "value-level core: Int/Bool/Str/None/list/tuple/objects; no float arithmetic; the renderer lib/render.py is faithful"]
    return chk.finish()


def replay(path):
    payload = json.load(open(path))
    vh = vlib.build_harness()
    o = runs.observe(vh, [{"id": 0, "src": payload["program"]}])[0]
    ref = payload["reference"]
    bad = False
    for m in ("off", "on"):
        same = o[m]["out"] == ref["out"] and (o[m]["exc"] or "ok") == ref["status"]
        print("annotate %s: %s %s" % (m, o[m]["out"], o[m]["exc"] or "ok"))
        bad = bad or not same
    if bad:
        print("VIOLATION property=%s replay=%s" % (PROP, path))
        return 1
    print("REPLAY ok")
    return 0
