"""C10 - printed expressions keep their structure.

R1+R2: spec/MC_PyExpr.tla - RoundTrip (Parse(Pr(t)) = PyOf(t)) model-checked on every tree of the bounded families,
       each tree emitted as a case.
R3:    every case is built as a real mamba `Core` value and printed by the generator's Display (vh core-print);
       CPython parses the text (py/pyexpr.py); spec/PyExprJudge.tla decides back = PyOf(tree).
End-to-end from Mamba source: see c10_e2e (typed expression trees through the whole pipeline).
"""
import json
import os
import subprocess
import sys

import vlib

PROP = "C10"


def py_parse(records):
    text = "".join(json.dumps(r) + "\n" for r in records)
    p = subprocess.run([sys.executable, os.path.join(vlib.PYDIR, "pyexpr.py")], input=text, capture_output=True, text=True)
    if p.returncode != 0:
        sys.stderr.write(p.stderr[-3000:])
        raise vlib.ToolError("py/pyexpr.py failed")
    return [json.loads(l) for l in p.stdout.splitlines() if l.strip()]


def observe(vh, cases):
    printed = vlib.run_vh(vh, ["core-print"], records=[{"id": c["id"], "tree": c["tree"]} for c in cases])
    parsed = {o["id"]: o for o in py_parse(printed)}
    obs = []
    for c in cases:
        o = parsed[c["id"]]
        obs.append({"id": c["id"], "tree": c["tree"], "back": o["back"], "toks": o["toks"], "ok": o["ok"], "text": o["text"]})
    return obs


def judge_cases(chk, vh, cases):
    obs = observe(vh, cases)
    verdicts, states, trans = vlib.judge("PyExprJudge", "PyExprJudge.cfg", obs, chunk=50000)
    chk.states += states
    chk.transitions += trans
    chk.cmds.append("tlc PyExprJudge.tla (TRACE=<printed trees as parsed by CPython>)")
    if len(verdicts) != len(obs):
        raise vlib.ToolError("judge returned %d verdicts for %d observations" % (len(verdicts), len(obs)))
    by = {o["id"]: o for o in obs}
    ndp = ndg = 0
    for v in verdicts:
        o = by[v["id"]]
        chk.evaluations += 1
        chk.traces += 1
        if "(" in o["text"]:
            chk.nontriv(o["text"])
        if v["dp"]:
            ndp += 1
            if len(chk.drift) < 10:
                chk.drift.append({"kind": "model printer differs from real text", "text": o["text"]})
        if v["dg"]:
            ndg += 1
            if len(chk.drift) < 10:
                chk.drift.append({"kind": "model grammar differs from CPython", "text": o["text"]})
        if v["v"] == "ok":
            if len(o["text"]) > 12:
                chk.sample({"tree": o["tree"], "printed": o["text"], "verdict": "ok"}, limit=4)
            continue
        chk.violation({"tree": o["tree"], "printed": o["text"], "python_parsed_it_as": o["back"], "clause": v["v"],
                       "what": "%r does not parse back to the tree it was printed from" % o["text"]}, key=o["text"])
    return ndp, ndg


def run(tier):
    chk = vlib.Check(PROP, tier)
    vh = vlib.build_harness()
    cases = []
    for fam in ("pairs", "depth3"):
        r = vlib.tlc("MC_PyExpr", "MC_PyExpr.cfg", constants={"Family": '"%s"' % fam}, xss="1g")
        chk.add_tlc(r)
        cases += r.records
    for i, c in enumerate(cases):
        c["id"] = i
    ndp, ndg = judge_cases(chk, vh, cases)
    chk.extra["model_agreement"] = {"printer_token_mismatches": ndp, "grammar_mismatches": ndg, "of": len(cases)}
    if ndp or ndg:
        chk.note("drift: %d printer / %d grammar disagreements between model and real code (not a violation)" % (ndp, ndg))
    import c10_e2e
    c10_e2e.run(chk, tier, vh)
    chk.exhaustive = True
    chk.rule = ("all Core expression trees of depth <= 3 over one operator per Python precedence class, and every (parent, child, "
                "side) combination over the complete operator set incl. desugared units (spec/MC_PyExpr.tla), enumerated by "
                "TLC; non-trivial = distinct printed texts that needed at least one parenthesis")
    chk.assumptions = ["CPython 3.11's ast.parse is the meaning of 'Python parses the text'",
                       "n-ary BoolOp is read as left-nested binary; a comparison chain is a different tree"]
    return chk.finish()


def replay(path):
    payload = json.load(open(path))
    vh = vlib.build_harness()
    chk = vlib.Check(PROP, "quick")
    judge_cases(chk, vh, [{"id": 0, "tree": payload["tree"]}])
    if chk.violations:
        print("VIOLATION property=%s replay=%s" % (PROP, path))
        return 1
    print("REPLAY ok")
    return 0
