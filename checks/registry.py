"""Per-property metadata; bin/mkmanifest turns this into MANIFEST.json."""
HOOK_COMMITS = ["a8ce924", "e061329"]

CHECKS = {
 "C18": dict(
  text="TLC validates, token by token, every token stream recorded from the real lexer against the abstract lexer of "
       "spec/LexerTrace.tla (true positions counted from the characters, indentation depth, single final Eof, canonical "
       "re-lexing) for bounded-exhaustive input families that TLC itself enumerates from spec/LexInputs.tla (all strings "
       "over position-relevant alphabets, all ordered pairs of the token vocabulary x separators), for every repository "
       "sample and for seeded token-level mutants; spec/Lexer.tla model-checks the implementation-shaped lexer machine "
       "against the same properties.",
  note="Trusted: TLC 1.8 + Json/IOUtils modules, the guarded hook mamba::verif_hooks::lex (plain re-export of the private "
       "lexer), the harness's source spelling of doc-strings. Columns judged on ASCII inputs; structural tokens "
       "(NL/Indent/Dedent) have no characters, only their count/depth is judged.",
  tech="TLA+ trace validation of recorded token streams (TLC as judge) over TLC-enumerated input families",
  ref="DESIGN.md 9/C18"),
 "C10": dict(
  text="spec/PyExpr.tla holds the printer model Pr, the Python expression grammar Parse and the denotation PyOf; TLC proves "
       "Parse(Pr(t)) = PyOf(t) for every Core expression tree of depth <= 3 over one operator per precedence class and for "
       "every (parent, child, side) over the complete operator set (R1), emits each tree (R2); each tree is built as a real "
       "mamba Core value, printed by the generator's Display, parsed by CPython, and TLC (spec/PyExprJudge.tla) decides "
       "that the parsed tree equals PyOf(t) (R3). Model/real agreement of printer tokens and grammar is measured as drift.",
  note="Trusted: CPython 3.11 ast.parse as the meaning of the printed text; py/pyexpr.py's mapping of the Python AST to the "
       "tree vocabulary; the harness's Core constructor (harness/src/corecmd.rs).",
  tech="TLA+ model of printer + Python grammar, TLC round-trip check; TLC judges real printer output parsed by CPython",
  ref="DESIGN.md 9/C10"),

 "C20": dict(
  text="The full table of the real relation (Name::is_superset_of on a Context built from the spec's user hierarchy; every "
       "ordered pair of the universe of spec/Types.tla, each query repeated with fresh hash orders and rotated member "
       "insertion) is loaded by TLC (spec/TypesTable.tla) and every law - reflexive, transitive over all triples, Any top, "
       "nullable rules, ancestors only, union laws, union commutative/associative/idempotent, order independence - is checked "
       "on the table itself. spec/MC_Types.tla proves the same laws for the specified relation Sub (R1) and emits the "
       "universe (R2); agreement of the real relation with Sub is measured as drift.",
  note="Trusted: harness/src/typescmd.rs builds Name values from type terms through the public API. The relation is taken "
       "with is_interchangeable = false. Hash orders are sampled by repetition, not forced. Three open known findings "
       "(KF-C20-1..3) are keyed by clause and type shape.",
  tech="TLC checks order laws on the recorded table of the real relation (all pairs/triples of a TLA+-defined universe)",
  ref="DESIGN.md 9/C20"),
 "C05": dict(
  text="TLC enumerates the probe grid of spec/MC_C05.tla (for calls, method calls, constructor calls, returns and annotated "
       "initialisers: the conforming use and every single-point non-conforming mutation, plugged by MambaSyntax.Plug under every "
       "context nesting, setup inside or hoisted); the real pipeline's verdicts (annotate off and on) are recorded and judged by "
       "TLC (spec/VerdictJudge.tla), which recomputes the expected verdict from the probe's parameters with the rules of "
       "spec/MambaStatic.tla (CallOK, ReturnOK, InitOK) - both directions: non-conforming accepted and conforming rejected.",
  note="Trusted: lib/render.py (abstract syntax to text). Subtyping limited to Int <: Float <: Complex, inheritance, Any. "
       "`pass` is not used as branch filler (the checker types it as None next to a return; noted in DESIGN.md).",
  tech="TLA+ static rules as oracle; TLC-enumerated probe x context grid; TLC judges recorded compiler verdicts",
  ref="DESIGN.md 9/C05"),
 "C06": dict(
  text="Same machinery as C05 with the grid of spec/MC_C06.tla: type x position (initialiser, reassignment, field write, "
       "function/constructor argument, return value, operand/receiver) x source (None, T?, T, x ? d) x target (T, T?); expected "
       "verdict MambaStatic.SubN, recomputed by the TLC judge from the parameters; both directions.",
  note="Trusted: lib/render.py. One open known finding (KF-C06-1, Bool literal as implicit return of '-> Bool?').",
  tech="TLA+ nullable subtyping rule as oracle; TLC-enumerated grid; TLC judges recorded verdicts",
  ref="DESIGN.md 9/C06"),
 "C07": dict(
  text="Same machinery with the grid of spec/MC_C07.tla: definition form x fin/mutable x write (:=, +=) x path (direct, "
       "receiver, fin receiver, self, fin self) x shadowing patterns, under every context nesting, definition inside or "
       "hoisted; expected verdict MambaStatic.WriteOK (defined, mutable, every receiver mutable).",
  note="Trusted: lib/render.py. Loop variables: both verdicts allowed (undocumented). Open known finding KF-C07-1 (fin "
       "fields / class arguments writable through self or a mutable receiver).",
  tech="TLA+ mutability rule as oracle; TLC-enumerated grid; TLC judges recorded verdicts",
  ref="DESIGN.md 9/C07"),
 "C08": dict(
  text="Same machinery with the grid of spec/MC_C08.tla: raised class (hierarchy of depth 3 + sibling) x how (call of a function "
       "declaring raise, raise statement, call of a method declaring raise) x declared set x handled set x position (statement, "
       "initialiser, inner context nestings, inside a handle arm, after a handle), in function and method bodies; expected "
       "verdict MambaStatic.RaisesOK / DeclarableOK. The second half (emitted except clauses catch exactly the listed classes) "
       "is decided by running the emitted code of the raise/handle programs of C01.",
  note="Trusted: lib/render.py. Open known finding KF-C08-1 (raises of methods are never checked).",
  tech="TLA+ raises rule as oracle; TLC-enumerated grid; TLC judges recorded verdicts",
  ref="DESIGN.md 9/C08"),
 "C09": dict(
  text="TLC enumerates the use/def patterns of spec/MC_C09.tla under every context nesting and checks (R1) that the pattern "
       "table agrees with the general definite-assignment analysis of spec/MambaScope.tla; the real verdicts are judged by TLC "
       "running that analysis on each program's abstract syntax (strict and lenient reading give the allowed set).",
  note="Trusted: lib/render.py. Open known findings KF-C09-1 (use of a function/class before its top-level definition), "
       "KF-C09-2 (handled definition unusable in later branches).",
  tech="TLA+ definite-assignment analysis (MambaScope) run by TLC on each program as oracle for recorded verdicts",
  ref="DESIGN.md 9/C09"),
 "C01": dict(
  text="TLC enumerates the value probes of spec/MC_C01.tla under every context nesting and checks (R1) that each program is inside "
       "the reference semantics of spec/MambaDynamic.tla (a big-step evaluator of the core language in TLA+); the typed generator spec/MambaGen.tla adds well-typed compositions of the "
       "constructs (invariant InsideSemantics); each program is "
       "rendered, transpiled with annotate off and on and executed by CPython; TLC (spec/RunJudge.tla) evaluates the reference "
       "semantics on the program and requires the same printed lines and the same ending (normal / class of the uncaught "
       "exception) in both modes.",
  note="Trusted: lib/render.py, py/runpy.py, CPython 3.11 as executor of the output, the TLA+ reference semantics of the source "
       "(validated by R1 and by agreeing with the implementation on ~2k programs). Value-level core without float arithmetic. "
       "Open known finding KF-C01-1.",
  tech="TLA+ reference semantics evaluated by TLC as oracle for executions of the emitted Python (both annotate modes)",
  ref="DESIGN.md 9/C01"),
 "C04": dict(
  text="Every program of the TLC-enumerated families (value probes of C01, the single-point-edit grids of C05-C09 and the "
       "operand / receiver edit grid of spec/MC_C04.tla, the well-typed compositions of spec/MambaGen.tla) that the real checker accepts is executed by CPython in both annotate "
       "modes; TLC (spec/RunJudge.tla, clause C04) rejects any execution that ends in TypeError / AttributeError / NameError / "
       "UnboundLocalError. The reference semantics' own goes-wrong status is compared as drift.",
  note="Trusted: lib/render.py, py/runpy.py; only CPython's verdict is decisive. Open known findings KF-C04-1..3.",
  tech="TLC-enumerated type-changing edit grids; accepted programs executed; TLC judges the recorded executions",
  ref="DESIGN.md 9/C04"),
 "C11": dict(
  text="For every program of the TLC-enumerated families, every repository sample and seeded token-level mutants, both annotate "
       "modes are transpiled; py/erase.py erases annotations (and typing imports that become unused) and normalises the Python "
       "AST; TLC (spec/AnnotateJudge.tla) requires equal verdicts and equal erased programs.",
  note="Trusted: py/erase.py's definition of 'annotation'.",
  tech="differential check of both annotate modes over TLC-enumerated programs + corpus, judged by TLC",
  ref="DESIGN.md 9/C11"),
 "C03": dict(
  text="spec/Pipeline.tla models the pipeline as a stage machine (parse all, context, check all, generate all; outputs XOR "
       "diagnostics; termination under fairness) and is model-checked (R1). TLC enumerates adversarial input families from "
       "spec/PipelineInputs.tla (token soup, all inheritance digraphs on 3 classes, nesting / length / empty-pattern / string / "
       "encoding shapes) (R2); these, the programs of the other families, every repository sample, seeded single and double "
       "token mutants and random text run through the real pipeline in isolated worker processes with the guarded stage-event "
       "hooks and step counters; spec/PipelineTrace.tla accepts a recorded run iff it is a behaviour of Pipeline ending in "
       "Done / Reported within the polynomial step bound. A panic, abort or hang has no accepting continuation.",
  note="TLA+ does not model Rust panics: the spec supplies acceptance, the step bound and the input families; the crash is "
       "observed on the worker process (bisected to the single input). Inputs <= 4 KB. Hang back-stop 60 s per input.",
  tech="TLA+ stage machine; TLC trace validation of recorded stage-event traces from isolated workers over TLC-enumerated adversarial inputs",
  ref="DESIGN.md 9/C03"),
 "C02": dict(
  text="Every module the pipeline emits - for the programs of the TLC-enumerated families, the token soup and adversarial shapes "
       "of spec/PipelineInputs.tla, the well-typed compositions of spec/MambaGen.tla, the typed expression trees of "
       "spec/MC_PyExpr.tla, target-language words at every name position (spec/Rename.tla), every repository sample, seeded "
       "token-level mutants and a literal-lexeme grid, with annotate off and on - is handed to CPython's compile(); TLC (spec/CompileJudge.tla) accepts a record iff the "
       "input was rejected with diagnostics or the emitted text compiled.",
  note="'Accepted by the Python 3 compiler' = compile(text, name, 'exec') of CPython 3.11. Open known findings KF-C02-8, -9 (shapes that "
       "only token-level mutants produce) are keyed by compiler message / shape of the emitted text.",
  tech="CPython compile() of every emitted module over TLC-enumerated inputs + mutants, judged by TLC",
  ref="DESIGN.md 9/C02"),
 "C12": dict(
  text="spec/Session.tla states determinism on request histories (the response is a function of the input alone); TLC enumerates "
       "every history of length <= 3 over a pool of 6 stress inputs (R2); each history is replayed in one process of the real code, "
       "and every input of a larger pool (programs stressing unordered collections, family programs, samples) is transpiled "
       "repeatedly in one process, on concurrent threads and in fresh processes; TLC (spec/SessionJudge.tla) requires every "
       "response (verdict and, on success, digest of the emitted bytes) to equal the input's isolated response.",
  note="Hash orders cannot be forced from outside; repetition samples them (every HashMap/HashSet instance gets fresh keys). "
       "The wording of diagnostics is not part of the response (the property fixes the verdict and the emitted bytes).",
  tech="TLC-enumerated request histories replayed on the real code + repetition/threads/processes; TLC judges recorded responses",
  ref="DESIGN.md 9/C12"),
 "C13": dict(
  text="spec/Project.tla defines what transpiling a directory must do (Expected: mirrored tree or nothing, files blamed = faulty "
       "files of the first failing phase); spec/MC_Project.tla proves Expected invariant under permutation and unrelated additions "
       "(R1) and emits every project of 1..N files over nested paths with cross-file uses and at most one lexical / syntax / type "
       "fault, with all permutations (R2); the harness materialises each project, runs the real transpile_dir twice, snapshots "
       "the tree, calls the pipeline with every permutation and an extra unrelated file; TLC (spec/ProjectJudge.tla) compares "
       "verdict, tree, blamed files, per-file bytes across orders, written files vs pipeline output, write-after-all-checked "
       "(guarded Read/Write events), second-run stability.",
  note="Projects are materialised under $TMPDIR and removed. File names in diagnostics are read from the rendering's arrow line.",
  tech="TLA+ project semantics; TLC-enumerated projects x permutations run on the real transpile_dir; TLC judges recorded trees and events",
  ref="DESIGN.md 9/C13"),
 "C19": dict(
  text="spec/Diag.tla states what a diagnostic must satisfy (names its file, position inside the file, quoted lines verbatim, some "
       "marked position on the fault line). Inputs: fault injection (lexical / syntactic / type / undefined-name fault at every "
       "statement line of every accepted C01 program: the fault line is known by construction), rejected programs of the C05-C09 "
       "grids, token soup / shapes / inheritance digraphs of spec/PipelineInputs.tla, the repository's invalid samples - each alone "
       "and as one file of a two-file project. The rendered diagnostics are abstracted by parsing and judged by TLC "
       "(spec/DiagJudge.tla).",
  note="File, position, marked and quoted lines are read off the rendering; unrecognised renderings are counted, not judged. "
       "Open known findings KF-C19-1 (Eof column, pinned by the repository's lexer tests), KF-C19-2 (0:0 inside interpolations).",
  tech="TLA+ well-formedness predicate; fault injection with known fault line; TLC judges abstracted diagnostics",
  ref="DESIGN.md 9/C19"),
 "C14": dict(
  text="spec/Trivia.tla defines the single trivia edits (trailing comment, whole-line comment indented like the previous / next "
       "line, blank line, whitespace-only line, trailing spaces, final newline, CRLF) and TLC enumerates kind x position for every "
       "line count (R2); the driver applies every edit to the programs of the C01 family, a slice of the C05-C09 probes and the "
       "valid repository samples, and renders every C01 program a second time with redundant parentheses around every compound "
       "operand; original and variant are transpiled and TLC (spec/EqualJudge.tla) requires the same verdict and the same emitted "
       "bytes.",
  note="Lines that end inside a string literal are not edited. The quick tier uses deterministic slices (no seeded choice).",
  tech="TLC-enumerated trivia edits applied to TLC-enumerated programs and samples; differential check judged by TLC",
  ref="DESIGN.md 9/C14"),
 "C16": dict(
  text="Faithful layer: spec/Imports.tla models the generator's import accumulator as a state machine; TLC checks no-duplicates / "
       "sorted names / present-iff-registered for every operation sequence of length <= 4 over the 9 support imports (R1) and emits "
       "each (R2); every sequence is replayed on the REAL Imports object (guarded re-export) and spec/ImportsTrace.tla steps the "
       "specification through the same operations, comparing the rendered import lines after every step (exact conformance). "
       "Emitted modules: programs using every construct that needs a support import (spec/MC_C16.tla: alone under the context grid, "
       "all ordered pairs), further families and samples, annotate off and on; py/pyapi.py reads unbound names and import "
       "statements off each module (symtable / ast) and TLC (spec/ClosedJudge.tla) requires: nothing unbound beyond what the source "
       "leaves free, support imports at the top and not duplicated, every support name used is imported.",
  note="For repository samples every identifier of the source counts as possibly bound by the user's own imports.",
  tech="TLA+ import state machine with exact replay on the real object (trace validation) + free-name / import analysis of emitted modules judged by TLC",
  ref="DESIGN.md 9/C16"),
 "C17": dict(
  text="spec/MambaAPI.tla computes from a program's abstract syntax the Python API it must expose (function and method names, "
       "operators as dunders, parameter names / order / defaults / vararg, constructor = class arguments or explicit __init__, "
       "parents in order); TLC enumerates class shapes (spec/MC_C17.tla) and the function / class programs of other families; both "
       "annotate modes are transpiled; py/pyapi.py reads the API off the emitted module's AST and positional / keyword probe calls "
       "built from the Mamba signature are bound against the loaded definitions (inspect.signature.bind); TLC (spec/APIJudge.tla) "
       "requires SameAPI and successful probes.",
  note="Member order inside a class is not part of the property; a support base (ABC) may follow the declared parents. Open "
       "known finding KF-C17-1 (annotate on: own class in a method signature).",
  tech="TLA+ API function over abstract syntax as oracle; TLC-enumerated class shapes; API read off emitted AST + signature-binding probes, judged by TLC",
  ref="DESIGN.md 9/C17"),
 "C15": dict(
  text="spec/Rename.tla enumerates renamings (kind of name x index x target over a pool of ordinary names and names that collide with "
       "identifiers the generator emits or special-cases, plus the total fresh renaming); lib/rename.py applies each to the abstract "
       "syntax of the programs of the C01 family and a slice of the verdict probes; p and pi(p) are rendered and transpiled in both "
       "annotate modes; py/pyapi.py applies pi to the Python AST of out(p); TLC (spec/EqualJudge.tla) requires the same verdict and "
       "pi(ast(out(p))) = ast(out(pi p)).",
  note="Names of the language's own vocabulary (keywords, built-in types and functions) and the documented specials (self, init as "
       "constructor, operator names) are not targets. No open known finding.",
  tech="TLC-enumerated renamings applied to TLC-enumerated programs; commutation check on Python ASTs judged by TLC",
  ref="DESIGN.md 9/C15"),
}

PENDING_REASON = "check not built yet in this snapshot (work in progress; see DESIGN.md section 13)"
NOT_APPLICABLE = {}
