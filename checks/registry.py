"""Per-property metadata; bin/mkmanifest turns this into MANIFEST.json."""
HOOK_COMMITS = ["a8ce924"]

CHECKS = {
 "C18": dict(
  text="TLC validates, token by token, every token stream recorded from the real lexer against the abstract lexer of "
       "spec/LexerTrace.tla (true positions counted from the characters, indentation depth, single final Eof, canonical "
       "re-lexing) for bounded-exhaustive input families that TLC itself enumerates from spec/LexInputs.tla (all strings "
       "over position-relevant alphabets, all ordered pairs of the token vocabulary x separators), for every repository "
       "sample and for seeded token-level mutants; spec/Lexer.tla model-checks the implementation-shaped lexer machine "
       "against the same properties.",
  note="Trusted: TLC 1.8 + Json/IOUtils modules, the guarded hook mamba::verif_hooks::lex (plain re-export of the private "
       "lexer), the harness's source spelling of doc-strings. Columns judged on ASCII inputs; structural tokens "
       "(NL/Indent/Dedent) have no characters, only their count/depth is judged.",
  tech="TLA+ trace validation of recorded token streams (TLC as judge) over TLC-enumerated input families",
  ref="DESIGN.md 9/C18"),
 "C10": dict(
  text="spec/PyExpr.tla holds the printer model Pr, the Python expression grammar Parse and the denotation PyOf; TLC proves "
       "Parse(Pr(t)) = PyOf(t) for every Core expression tree of depth <= 3 over one operator per precedence class and for "
       "every (parent, child, side) over the complete operator set (R1), emits each tree (R2); each tree is built as a real "
       "mamba Core value, printed by the generator's Display, parsed by CPython, and TLC (spec/PyExprJudge.tla) decides "
       "that the parsed tree equals PyOf(t) (R3). Model/real agreement of printer tokens and grammar is measured as drift.",
  note="Trusted: CPython 3.11 ast.parse as the meaning of the printed text; py/pyexpr.py's mapping of the Python AST to the "
       "tree vocabulary; the harness's Core constructor (harness/src/corecmd.rs).",
  tech="TLA+ model of printer + Python grammar, TLC round-trip check; TLC judges real printer output parsed by CPython",
  ref="DESIGN.md 9/C10"),

 "C20": dict(
  text="The full table of the real relation (Name::is_superset_of on a Context built from the spec's user hierarchy; every "
       "ordered pair of the universe of spec/Types.tla, each query repeated with fresh hash orders and rotated member "
       "insertion) is loaded by TLC (spec/TypesTable.tla) and every law - reflexive, transitive over all triples, Any top, "
       "nullable rules, ancestors only, union laws, union commutative/associative/idempotent, order independence - is checked "
       "on the table itself. spec/MC_Types.tla proves the same laws for the specified relation Sub (R1) and emits the "
       "universe (R2); agreement of the real relation with Sub is measured as drift.",
  note="Trusted: harness/src/typescmd.rs builds Name values from type terms through the public API. The relation is taken "
       "with is_interchangeable = false. Hash orders are sampled by repetition, not forced. Three open known findings "
       "(KF-C20-1..3) are keyed by clause and type shape.",
  tech="TLC checks order laws on the recorded table of the real relation (all pairs/triples of a TLA+-defined universe)",
  ref="DESIGN.md 9/C20"),
}

PENDING_REASON = "check not built yet in this snapshot (work in progress; see DESIGN.md section 13)"
NOT_APPLICABLE = {}
