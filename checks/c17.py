"""C17 - interoperability: the output's Python API mirrors the Mamba definitions.

R2: spec/MC_C17.tla enumerates class shapes (class arguments x explicit __init__ x parents x fields x methods x member order) and
    top-level functions with defaults / vararg; the function / class programs of the C01 family are added.
R3: both annotate modes are transpiled; py/pyapi.py reads the API off the emitted module's AST; positional and keyword probe calls
    built from the MAMBA signature are executed; TLC (spec/APIJudge.tla) requires SameAPI(prog, observed) with the expected API
    computed by spec/MambaAPI.tla from the program's abstract syntax.
"""
import json

import families
import probes
import render
import pyfacts
import runs
import vlib

PROP = "C17"
VAL = {"Int": "1", "Str": "\"s\"", "Bool": "True", "Float": "1.5"}


def probe_calls(prog):
    """positional and keyword calls for every top-level function and constructor whose parameters are primitives"""
    lines = []
    for s in prog["stmts"]:
        if s["k"] == "fun":
            ps, name = s["ps"], s["n"]
        elif s["k"] == "class":
            init = [m for m in s["methods"] if m["n"] in ("__init__", "init")]
            ps, name = (init[0]["ps"] if init else s["args"]), s["n"]
        else:
            continue
        if any(p.get("ty") not in VAL for p in ps):
            continue
        if any(p.get("vararg") for p in ps):
            lines.append("%s(1, 2, 3)" % name)
            continue
        lines.append("%s(%s)" % (name, ", ".join(VAL[p["ty"]] for p in ps)))
        lines.append("%s(%s)" % (name, ", ".join("%s=%s" % (p["n"], VAL[p["ty"]]) for p in ps)))
        required = [p for p in ps if p["d"]["k"] == "absent"]
        lines.append("%s(%s)" % (name, ", ".join("%s=%s" % (p["n"], VAL[p["ty"]]) for p in reversed(required))))
    return lines


def observe(vh, cases):
    tr = probes.transpile(vh, cases)
    mods, probe_mods = [], []
    for c in cases:
        calls = probe_calls(c["prog"])
        for mode, run in zip(("off", "on"), tr[c["id"]]):
            if run["ok"]:
                key = "%d/%s" % (c["id"], mode)
                mods.append((key, run["out"][0], None))
                # load the module (its own top-level code may legitimately print or raise a user exception), then check that every
                # probe call BINDS to the definition's signature (inspect.signature(..).bind): callability, not behaviour
                binds = "\n".join("inspect.signature(%s).bind(%s)" % (cl[:cl.index("(")], cl[cl.index("(") + 1:-1]) for cl in calls)
                probe_mods.append((key, "import sys, io, inspect\n_o = sys.stdout\nsys.stdout = io.StringIO()\ntry:\n    exec(compile(%r, '<emitted>', 'exec'))\n"
                                        "except NameError:\n    raise\nexcept Exception as _e:\n    pass\nsys.stdout = _o\n%s\n" % (run["out"][0], binds)))
    facts = pyfacts.facts(mods)
    ran = runs.run_python(probe_mods)
    obs = []
    for c in cases:
        d = {"id": c["id"], "prog": c["prog"]}
        for mode, run in zip(("off", "on"), tr[c["id"]]):
            key = "%d/%s" % (c["id"], mode)
            f = facts.get(key)
            d[mode] = {"acc": bool(run["ok"]), "parses": bool(f and f["ok"]), "api": f["api"] if f else [],
                       "probe": bool(key in ran and ran[key]["compiles"] and not ran[key]["exc"]),
                       "probe_error": (ran.get(key) or {}).get("exc_msg"), "probe_exc": (ran.get(key) or {}).get("exc")}
        obs.append(d)
    return obs, tr


def mentions_own_class(prog):
    for s in prog["stmts"]:
        if s["k"] == "class":
            for m in s["methods"]:
                if m.get("ret") == s["n"] or any(p.get("ty") == s["n"] for p in m["ps"]):
                    return True
    return False


def explain(c, verdict, o):
    if (verdict == "violation:definition-not-callable-as-its-signature-reads" and o["off"]["probe"] and not o["on"]["probe"]
            and "NameError" in str(o["on"].get("probe_exc")) and mentions_own_class(c["prog"])):
        return "KF-C17-1"
    return None


def run(tier):
    chk = vlib.Check(PROP, tier)
    vh = vlib.build_harness()
    cases = probes.generate(chk, "MC_C17", ["shapes"], 0)
    for c in cases:
        c["family"] = "MC_C17"
    # the second layout of the same shapes: bodies of one simple statement on the line of their header (another node of the parser)
    inline = []
    render.INLINE_BODIES = True
    try:
        for c in cases:
            src2, lines2 = render.program(c["prog"])
            if src2 != c["src"]:
                inline.append(dict(c, src=src2, lines=lines2, layout="inline"))
    finally:
        render.INLINE_BODIES = False
    extra = [c for c in families.all_programs(chk, depth_values=0, depth_verdict=0, only=("MC_C01", "MC_C05")) if c["kind"] not in ("call", "method", "ctor") or c["expect"] == "accept"]
    if tier == "quick":
        cases = [c for c in cases if c["kind"] == "operator-names"] + [c for c in cases if c["kind"] != "operator-names"][::3]
        extra = extra[::4]
        inline = [c for c in inline if c["kind"] == "operator-names"][::2] + [c for c in inline if c["kind"] != "operator-names"][::3]
    cases += inline
    for c in extra:
        c["id"] = len(cases)
        cases.append(c)
    for i, c in enumerate(cases):
        c["id"] = i
    obs, tr = observe(vh, cases)
    verdicts, states, trans = vlib.judge("APIJudge", "APIJudge.cfg", [{"id": o["id"], "prog": o["prog"], "off": {k: o["off"][k] for k in ("acc", "parses", "api", "probe")},
                                                                     "on": {k: o["on"][k] for k in ("acc", "parses", "api", "probe")}} for o in obs], chunk=8000, xss="1g")
    chk.states += states
    chk.transitions += trans
    chk.cmds.append("tlc APIJudge.tla (TRACE=<API read off the emitted modules + probe call results>)")
    if len(verdicts) != len(obs):
        raise vlib.ToolError("judge returned %d verdicts for %d observations" % (len(verdicts), len(obs)))
    by = {c["id"]: c for c in cases}
    ob = {o["id"]: o for o in obs}
    counts = {}
    for v in verdicts:
        c = by[v["id"]]
        chk.evaluations += 1
        counts["%s/%s" % (c.get("family", "?"), v["v"])] = counts.get("%s/%s" % (c.get("family", "?"), v["v"]), 0) + 1
        if v["v"].startswith("skip"):
            continue
        chk.traces += 1
        if v["v"] == "ok":
            chk.nontriv(c["src"])
            if len(chk.samples) < 3 and c.get("family") == "MC_C17" and v["id"] % 401 == 0:
                chk.sample({"program": c["src"][-500:], "expected_api": v["expected"][-1], "verdict": "ok"})
            continue
        o = ob[c["id"]]
        fid = explain(c, v["v"], o)
        if fid and fid in chk.kf:
            chk.known(fid)
            continue
        chk.violation({"program": c["src"], "clause": v["v"], "expected_api": v["expected"], "observed_api": {m: o[m]["api"] for m in ("off", "on")},
                       "probe_error": {m: o[m]["probe_error"] for m in ("off", "on")}, "emitted_python": tr[c["id"]][0]["out"][0] if tr[c["id"]][0]["ok"] else None,
                       "what": "%s: %s" % (v["v"], c["src"].strip().splitlines()[-1][:100])}, key=c["src"])
    chk.extra["verdict_counts"] = counts
    chk.exhaustive = tier == "thorough"
    chk.rule = ("class shapes of spec/MC_C17.tla (class arguments 0-2 def/plain with trailing defaults x explicit __init__ x parents 0-2 with / without "
                "arguments x fields 0-2 x method subsets {plain with default, operator, fin self} x member order) with top-level functions with "
                "default and vararg (quick: every 3rd), plus the function / class programs of the C01 and C05 families; annotate off and on; "
                "non-trivial = distinct accepted programs whose API was compared")
    chk.assumptions = ["the order of members inside a class is not part of the property; a support base class (ABC) may follow the declared parents",
                       "probe calls use primitive values by declared parameter type"]
    return chk.finish()


def replay(path):
    payload = json.load(open(path))
    print("replay: re-run bin/check C17 (the case needs the abstract syntax); program was:\n" + payload["program"])
    return run("quick")
