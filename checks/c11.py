"""C11 - the annotate option is semantically inert: same verdict, and the same Python program once annotations are erased.

Inputs: every program of the TLC-enumerated families (C01, C04-C09), every repository sample and seeded token-level mutants of
the samples.  Both modes are transpiled; py/erase.py erases annotations and normalises; spec/AnnotateJudge.tla decides.
"""
import json
import os
import subprocess
import sys

import corpus
import families
import vlib

PROP = "C11"


def erase(modules, dump=False):
    if not modules:
        return {}
    text = "".join(json.dumps({"id": k, "py": t}) + "\n" for k, t in modules)
    p = subprocess.run([sys.executable, os.path.join(vlib.PYDIR, "erase.py")] + (["--dump"] if dump else []), input=text, capture_output=True, text=True)
    if p.returncode != 0:
        sys.stderr.write(p.stderr[-2000:])
        raise vlib.ToolError("py/erase.py failed")
    return {r["id"]: r for r in (json.loads(l) for l in p.stdout.splitlines() if l.strip())}


def observe(vh, inputs):
    recs = [{"id": c["id"], "src": c["src"], "annotate": [False, True]} for c in inputs]
    tr = vlib.run_vh(vh, ["transpile"], records=recs)
    modules = []
    for o in tr:
        for mode, run in zip(("off", "on"), o["runs"]):
            if run["ok"]:
                modules.append(("%s/%s" % (o["id"], mode), run["out"][0]))
    er = erase(modules)
    obs, raw = [], {}
    for o in tr:
        d = {"id": o["id"]}
        for mode, run in zip(("off", "on"), o["runs"]):
            e = er.get("%s/%s" % (o["id"], mode))
            d[mode] = {"acc": bool(run["ok"]), "panic": bool(run.get("panic")), "parses": bool(e and e["ok"]), "erased": e["erased"] if e else ""}
        obs.append(d)
        raw[o["id"]] = o["runs"]
    return obs, raw


def run(tier):
    chk = vlib.Check(PROP, tier)
    vh = vlib.build_harness()
    inputs = families.all_programs(chk, depth_values=1, depth_verdict=0 if tier == "quick" else 1, gen=200 if tier == "quick" else 1500, forms=True)
    for c in inputs:
        c["origin"] = "%s/%s" % (c["family"], c["kind"])
    rng = corpus.rng_for(PROP, vlib.seed())
    n = len(inputs)
    for rel, text in corpus.repo_samples():
        inputs.append({"id": n, "src": text, "origin": "sample:" + rel})
        n += 1
        for j in range(2 if tier == "quick" else 20):
            m, ops = corpus.mutate(text, rng, n=1)
            inputs.append({"id": n, "src": m, "origin": "mutant:%s#%d" % (rel, j)})
            n += 1
    obs, raw = observe(vh, inputs)
    verdicts, states, trans = vlib.judge("AnnotateJudge", "AnnotateJudge.cfg", obs, chunk=50000)
    chk.states += states
    chk.transitions += trans
    chk.cmds.append("tlc AnnotateJudge.tla (TRACE=<verdicts and erased outputs of both modes>)")
    if len(verdicts) != len(obs):
        raise vlib.ToolError("judge returned %d verdicts for %d observations" % (len(verdicts), len(obs)))
    by = {c["id"]: c for c in inputs}
    counts = {}
    for v in verdicts:
        c = by[v["id"]]
        chk.evaluations += 1
        fam = c["origin"].split(":")[0].split("/")[0]
        counts["%s/%s" % (fam, v["v"])] = counts.get("%s/%s" % (fam, v["v"]), 0) + 1
        if v["v"].startswith("skip"):
            continue
        chk.traces += 1
        if v["v"] == "ok":
            chk.nontriv(c["src"])
            if len(chk.samples) < 3 and "def " in c["src"] and len(c["src"]) < 300:
                chk.sample({"input": c["src"], "origin": c["origin"], "verdict": "accepted in both modes, outputs equal modulo annotations"})
            continue
        if v["v"].startswith("ok"):
            continue
        runs_ = raw[c["id"]]
        chk.violation({"input": c["src"], "origin": c["origin"], "clause": v["v"],
                       "output_annotate_off": runs_[0]["out"][0] if runs_[0]["ok"] else runs_[0]["errs"][:1],
                       "output_annotate_on": runs_[1]["out"][0] if runs_[1]["ok"] else runs_[1]["errs"][:1],
                       "what": "%s for %s" % (v["v"], c["origin"])}, key=c["src"])
    chk.extra["verdict_counts"] = counts
    chk.exhaustive = False
    chk.rule = ("all programs of the TLC-enumerated families (spec/MC_C01, MC_C04-C09), all repository samples and seeded single-token "
                "mutants; non-trivial = distinct inputs accepted in both modes whose erased outputs were compared")
    chk.assumptions = ["py/erase.py: annotation erasure and dropping of typing imports that become unused"]
    return chk.finish()


def replay(path):
    payload = json.load(open(path))
    vh = vlib.build_harness()
    obs, raw = observe(vh, [{"id": 0, "src": payload["input"]}])
    o = obs[0]
    bad = o["off"]["acc"] != o["on"]["acc"] or (o["off"]["acc"] and (o["off"]["parses"] != o["on"]["parses"] or (o["off"]["parses"] and o["off"]["erased"] != o["on"]["erased"])))
    if bad:
        print("VIOLATION property=%s replay=%s" % (PROP, path))
        return 1
    print("REPLAY ok")
    return 0
