"""C09 - definite assignment (spec/MC_C09.tla patterns, spec/MambaScope.tla analysis as oracle, VerdictJudge.tla)."""
import json

import probes
import vlib

PROP = "C09"
PARTS = ["var", "field", "global"]


def explain(case, verdict, runs):
    pat = case["note"].get("pattern")
    if verdict == "violation:non-conforming-use-accepted" and pat in ("call-before-function-definition", "construct-before-class-definition"):
        return "KF-C09-1"
    if (verdict == "violation:conforming-use-rejected" and pat in ("handle-binder-inside", "handle-target-after")
            and any(w in ("else", "arm", "harm") for w in case["ctx"])):
        return "KF-C09-2"
    return None


def run(tier):
    chk = vlib.Check(PROP, tier)
    vh = vlib.build_harness()
    depth = 1 if tier == "quick" else 2
    cases = probes.generate(chk, "MC_C09", PARTS, depth, cfg="MC_C09.cfg")
    runs = probes.transpile(vh, cases)
    results = probes.judge_verdicts(chk, cases, runs, with_prog=True)
    probes.record(chk, results, runs, explain)
    chk.exhaustive = True
    chk.rule = ("spec/MC_C09.tla: use/def patterns of variables (never, later, one branch, both branches, loop body, loop variable, match arm, "
                "arm / comprehension / handle binders, shadowing, nesting) under every context nesting of depth <= %d; functions and globals; "
                "constructor field patterns; the oracle is the definite-assignment analysis of spec/MambaScope.tla run by TLC on each program; "
                "non-trivial = distinct programs with a verdict" % depth)
    chk.assumptions = ["a name defined in both branches and used after may be accepted or rejected (undocumented)",
                       "the renderer lib/render.py prints the abstract syntax faithfully"]
    return chk.finish()


def replay(path):
    payload = json.load(open(path))
    vh = vlib.build_harness()
    runs = vlib.run_vh(vh, ["transpile"], records=[{"id": 0, "src": payload["program"]}])[0]["runs"]
    got = probes.verdict_of(runs[0])
    print("expected %s, observed %s" % (payload["expected"], got))
    if got != payload["expected"] and got != "panic":
        print("VIOLATION property=%s replay=%s" % (PROP, path))
        return 1
    print("REPLAY ok")
    return 0
