"""C14 - layout trivia never changes meaning: comments, blank lines, CRLF, spaces, redundant parentheses.

R2: spec/Trivia.tla enumerates, for every line count n, all single trivia edits (kind x position); the driver applies each to
    every program with n lines: the C01 family (quick: a slice), the accepted C05-C09 probes, the repository samples.
R3: original and variant are transpiled; spec/EqualJudge.tla requires the same verdict and the same emitted bytes.
    Redundant parentheses: every program of the C01 family is rendered a second time with every compound operand wrapped in one
    more pair of parentheses; verdict and emitted Python must be equal.
"""
import hashlib
import json

import corpus
import families
import render
import vlib

PROP = "C14"


def split_lines(text):
    ls = text.split("\n")
    final_nl = ls[-1] == ""
    if final_nl:
        ls = ls[:-1]
    return ls, final_nl


def indent_of(l):
    return len(l) - len(l.lstrip(" "))


def apply_edit(text, e):
    ls, final_nl = split_lines(text)
    k, at = e["k"], e["at"]
    nl = "\n"
    if k == "trailing-comment":
        ls[at - 1] += "  # c"
    elif k == "trailing-spaces":
        ls[at - 1] += "   "
    elif k == "comment-line-as-prev":
        ls.insert(at, " " * indent_of(ls[at - 1]) + "# c")
    elif k == "comment-line-as-next":
        ls.insert(at, " " * (indent_of(ls[at]) if at < len(ls) else 0) + "# c")
    elif k == "blank-line":
        ls.insert(at, "")
    elif k == "spaces-line":
        ls.insert(at, " " * indent_of(ls[at - 1]))
    elif k == "final-newline":
        final_nl = not final_nl
    elif k == "crlf":
        nl = "\r\n"
    return nl.join(ls) + (nl if final_nl else "")


def in_string(line):
    return line.count('"') % 2 == 1


def sha(t):
    return hashlib.sha1(t.encode()).hexdigest()[:16]


def run(tier):
    chk = vlib.Check(PROP, tier)
    vh = vlib.build_harness()
    r = vlib.tlc("Trivia", "Trivia.cfg")
    chk.add_tlc(r)
    edits = {c["n"]: c["edits"] for c in r.records}
    progs = families.all_programs(chk, depth_values=1, depth_verdict=0, forms=True)
    rng = corpus.rng_for(PROP, vlib.seed())
    base = [{"src": p["src"], "origin": "%s/%s" % (p["family"], p["kind"])} for p in progs if p["family"] == "MC_C01"]
    if tier == "quick":
        base = base[::10]
    base += [{"src": p["src"], "origin": "%s/%s" % (p["family"], p["kind"])} for p in progs if p["family"] not in ("MC_C01", "MC_Forms")][:: (40 if tier == "quick" else 6)]
    base += [{"src": p["src"], "origin": "%s/%s" % (p["family"], p["kind"])} for p in progs if p["family"] == "MC_Forms"]
    base += [{"src": t, "origin": "sample:" + rel} for rel, t in corpus.repo_samples(kinds=("valid",))]
    # every kind of simple statement at every kind of block position (spec/MC_C14.tla)
    r2 = vlib.tlc("MC_C14", "MC_C14.cfg")
    chk.add_tlc(r2)
    for c in sorted(r2.records, key=lambda c: (c["stmt"], c["position"])):
        if len(c["lines"]) > 1:
            base.append({"src": "".join("    " * l["ind"] + l["text"] + "\n" for l in c["lines"]), "origin": "MC_C14/%s@%s" % (c["stmt"], c["position"])})
    variants = []
    for b in base:
        ls, _ = split_lines(b["src"])
        if not ls or len(ls) > 40 or any(in_string(l) for l in ls) or '"""' in b["src"]:
            continue
        es = edits.get(len(ls), [])
        if tier == "quick" and b["origin"].startswith("sample") and len(es) > 24:
            es = sorted(es, key=lambda e: (e["k"], e["at"]))[:: max(1, len(es) // 24)]      # a deterministic slice (not seeded)
        for e in es:
            variants.append({"orig": b["src"], "variant": apply_edit(b["src"], e), "origin": b["origin"], "edit": e})
    # redundant parentheses (AST level)
    for p in progs:
        if p["family"] != "MC_C01":
            continue
        render.EXTRA_PARENS = True
        try:
            v, _ = render.program(p["prog"])
        finally:
            render.EXTRA_PARENS = False
        if v != p["src"]:
            variants.append({"orig": p["src"], "variant": v, "origin": "MC_C01/" + p["kind"], "edit": {"k": "redundant-parentheses", "at": 0}})
    texts = list(dict.fromkeys([v["orig"] for v in variants] + [v["variant"] for v in variants]))
    idx = {t: i for i, t in enumerate(texts)}
    results, dead = vlib.run_vh_isolated(vh, ["transpile"], [{"id": i, "src": t, "annotate": [False]} for i, t in enumerate(texts)], chunk=800, timeout=300)

    def resp(t):
        o = results.get(idx[t])
        if o is None:
            return {"acc": False, "out": "", "panic": True}
        run_ = o["runs"][0]
        return {"acc": bool(run_["ok"]), "out": sha(run_["out"][0]) if run_["ok"] else "", "panic": bool(run_.get("panic"))}

    obs = []
    for i, v in enumerate(variants):
        a, b = resp(v["orig"]), resp(v["variant"])
        obs.append({"id": i, "orig": {"acc": a["acc"], "out": a["out"]}, "variant": {"acc": b["acc"], "out": b["out"]}, "panic": a["panic"] or b["panic"]})
    verdicts, states, trans = vlib.judge("EqualJudge", "EqualJudge.cfg", obs, chunk=60000)
    chk.states += states
    chk.transitions += trans
    chk.cmds.append("tlc EqualJudge.tla (TRACE=<verdict and output digest of original and variant>)")
    if len(verdicts) != len(obs):
        raise vlib.ToolError("judge returned %d verdicts for %d observations" % (len(verdicts), len(obs)))
    counts = {}
    for v in verdicts:
        var = variants[v["id"]]
        chk.evaluations += 1
        key = "%s/%s" % (var["edit"]["k"], v["v"])
        counts[key] = counts.get(key, 0) + 1
        if v["v"].startswith("skip"):
            continue
        chk.traces += 1
        if v["v"] == "ok":
            chk.nontriv(var["variant"])
            if len(chk.samples) < 4 and v["id"] % 997 == 0:
                chk.sample({"edit": var["edit"], "variant": var["variant"][:300], "verdict": "same verdict, same bytes"})
            continue
        fid = explain(var, v["v"], results, idx)
        if fid and fid in chk.kf:
            chk.known(fid)
            continue
        ro = results[idx[var["variant"]]]["runs"][0]
        chk.violation({"original": var["orig"], "variant": var["variant"], "edit": var["edit"], "origin": var["origin"], "clause": v["v"],
                       "variant_diagnostic": (ro["errs"][0] if ro["errs"] else "")[:400],
                       "what": "%s after %s at line %d (%s): %s" % (v["v"], var["edit"]["k"], var["edit"]["at"], var["origin"], (ro["errs"][0].splitlines()[0] if ro["errs"] else "")[:80])},
                      key=var["variant"])
    chk.extra["verdict_counts"] = counts
    chk.exhaustive = False
    chk.rule = ("every single trivia edit of spec/Trivia.tla (6 kinds x every line, + blank/comment first line, final newline, CRLF) applied to the "
                "programs of the C01 family (quick: every 10th), a slice of the C05-C09 probes and the valid repository samples (quick: a slice of 24 "
                "edits each); redundant parentheses around every compound operand of every C01 program; non-trivial = distinct variants compared")
    chk.assumptions = ["lines that end inside a string literal are not edited (a trailing comment there is part of the string)"]
    return chk.finish()


def explain(var, verdict, results, idx):
    return None


def replay(path):
    payload = json.load(open(path))
    vh = vlib.build_harness()
    out = vlib.run_vh(vh, ["transpile"], records=[{"id": 0, "src": payload["original"], "annotate": [False]}, {"id": 1, "src": payload["variant"], "annotate": [False]}])
    a, b = out[0]["runs"][0], out[1]["runs"][0]
    same = a["ok"] == b["ok"] and (not a["ok"] or a["out"] == b["out"])
    if not same:
        print("VIOLATION property=%s replay=%s" % (PROP, path))
        return 1
    print("REPLAY ok")
    return 0
