"""C08 - explicit error handling: raises must be declared or handled (spec/MC_C08.tla, VerdictJudge.tla); second half (the emitted except clauses catch exactly the listed classes) is judged with C01's machinery."""
import json

import probes
import vlib

PROP = "C08"
PARTS = ["raise", "position", "declare", "multi"]


def explain(case, verdict, runs):
    n = case["note"]
    if verdict == "violation:non-conforming-use-accepted" and n.get("how") == "mcall":
        return "KF-C08-1"
    return None


def run(tier):
    chk = vlib.Check(PROP, tier)
    vh = vlib.build_harness()
    depth = 1 if tier == "quick" else 2
    cases = probes.generate(chk, "MC_C08", PARTS, depth)
    runs = probes.transpile(vh, cases)
    results = probes.judge_verdicts(chk, cases, runs)
    probes.record(chk, results, runs, explain)
    chk.exhaustive = True
    chk.rule = ("spec/MC_C08.tla: raised class (hierarchy of depth 3 + sibling) x how (call, raise, method call) x declared set x handled set x "
                "position (statement, initialiser, inner context nestings of depth <= %d, inside a handle arm, after a handle) in function and "
                "method bodies; non-trivial = distinct programs with a verdict" % depth)
    chk.assumptions = ["the renderer lib/render.py prints the abstract syntax faithfully"]
    return chk.finish()


def replay(path):
    payload = json.load(open(path))
    vh = vlib.build_harness()
    runs = vlib.run_vh(vh, ["transpile"], records=[{"id": 0, "src": payload["program"]}])[0]["runs"]
    got = probes.verdict_of(runs[0])
    print("expected %s, observed %s" % (payload["expected"], got))
    if got != payload["expected"] and got != "panic":
        print("VIOLATION property=%s replay=%s" % (PROP, path))
        return 1
    print("REPLAY ok")
    return 0
