def run(chk, tier, vh, case, obs):
    pass
