"""C19 - diagnostics are well-formed and point into the offending file and line.

Inputs: (a) fault injection: every accepted program of the C01 family x every line L x fault kind (lexical, syntactic, type) -
the fault line is known by construction; (b) the rejected programs of the C05-C09 grids, the token soup / shapes of
spec/PipelineInputs.tla, rejected repository samples (fault line unknown: well-formedness only); single-file and as one file of a
two-file project.  The rendered diagnostics are abstracted by parsing (file, position, quoted lines) and judged by TLC
(spec/Diag.tla, spec/DiagJudge.tla).
"""
import json
import re

import corpus
import families
import vlib

PROP = "C19"
HEAD = re.compile(r"──→ (.+?)(?::(\d+):(\d+))?\s*$")
QUOTED = re.compile(r"^\s*(\d+) \| (.*)$")
LEXHEAD = re.compile(r"^--> (.+?):(\d+):(\d+)\s*$")
LEXQ = re.compile(r"^\s*(\d+)\s+\|- (.*)$")


def abstract(rendered):
    """read file, position(s) and quoted lines off a rendered diagnostic; None if the rendering is not recognised"""
    d = {"file": "<none>", "has_pos": False, "line": 0, "col": 0, "quoted": [], "marked": []}
    found = False
    last_quoted = 0
    for line in rendered.split("\n"):
        m = HEAD.search(line) or LEXHEAD.match(line.strip())
        if m and not found:
            found = True
            d["file"] = m.group(1)
            if m.group(2):
                d.update(has_pos=True, line=int(m.group(2)), col=int(m.group(3)))
                d["marked"].append(int(m.group(2)))
            continue
        q = QUOTED.match(line) or LEXQ.match(line)
        if q:
            d["quoted"].append({"n": int(q.group(1)), "text": q.group(2)})
            last_quoted = int(q.group(1))
        elif last_quoted and re.match(r"^\s*\^+\s*$", line):      # a caret line marks the quoted line above it
            d["marked"].append(last_quoted)
            last_quoted = 0
    return d if found else None


def inject(text, line_no, kind):
    """single fault on line `line_no` (1-based) of a valid program; returns (new text, fault line)"""
    lines = text.split("\n")
    l = lines[line_no - 1]
    ind = l[:len(l) - len(l.lstrip(" "))]
    if kind == "lex":
        lines[line_no - 1] = l + " !"
        return "\n".join(lines), line_no
    if kind == "syntax":
        lines[line_no - 1] = l + " )"
        return "\n".join(lines), line_no
    if kind == "type":       # a new statement before line L, indented like it
        lines.insert(line_no - 1, ind + "def zq: Int := \"s\"")
        return "\n".join(lines), line_no
    if kind == "swap":       # IN PLACE: the first integer literal of the line becomes a string literal (the line stays one statement / arm / branch)
        if '"' in l or "#" in l:
            return None, 0
        m = re.search(r"(?<![\w.])\d+(?![\w.])", l)
        if not m:
            return None, 0
        lines[line_no - 1] = l[:m.start()] + '"zq"' + l[m.end():]
        return "\n".join(lines), line_no
    if kind == "undefined":
        lines.insert(line_no - 1, ind + "print(zq_undefined)")
        return "\n".join(lines), line_no
    raise ValueError(kind)


def statement_lines(text):
    """lines at which a statement can be inserted: non-empty lines that start a statement (not arm / else headers)"""
    out = []
    for i, l in enumerate(text.split("\n"), 1):
        s = l.strip()
        if not s or s.startswith("#") or s == "else" or s.endswith("=>") and not s.startswith("def ") or re.match(r"^\w+: \w+ =>$", s):
            continue
        out.append(i)
    return out


def gather(chk, tier, vh):
    progs = families.all_programs(chk, depth_values=0 if tier == "quick" else 1, depth_verdict=0)
    recs = [{"id": i, "src": p["src"], "annotate": [False]} for i, p in enumerate(progs)]
    res = vlib.run_vh(vh, ["transpile"], records=recs)
    accepted = [progs[o["id"]] for o in res if o["runs"][0]["ok"] and progs[o["id"]]["family"] == "MC_C01"]
    rejected = [progs[o["id"]] for o in res if not o["runs"][0]["ok"] and not o["runs"][0].get("panic")]
    inputs = []
    step = 3 if tier == "quick" else 1
    for p in accepted[::step]:
        body_lines = statement_lines(p["src"])
        for L in body_lines:
            for kind in ("lex", "syntax", "type", "undefined"):
                t, fl = inject(p["src"], L, kind)
                inputs.append({"src": t, "fault_line": fl, "origin": "inject-%s:%s" % (kind, p["kind"])})
    # in-place faults on EVERY line that holds an integer literal (also arm bodies, branches and headers) of EVERY accepted program; a
    # program that is still valid after the swap is simply accepted and not judged
    for p in accepted:
        for L in range(1, p["src"].count("\n") + 1):
            t, fl = inject(p["src"], L, "swap")
            if t:
                inputs.append({"src": t, "fault_line": fl, "origin": "inject-swap:%s" % p["kind"]})
    for p in rejected[:: (2 if tier == "quick" else 1)]:
        inputs.append({"src": p["src"], "fault_line": 0, "origin": "grid:%s/%s" % (p["family"], p["kind"])})
    for fam, k in (("soup", 3), ("shapes", 0), ("graphs", 0)):
        r = vlib.tlc("PipelineInputs", "PipelineInputs.cfg", constants={"Family": '"%s"' % fam, "K": k}, xss="1g")
        chk.add_tlc(r)
        inputs += [{"src": c["src"], "fault_line": 0, "origin": fam} for c in r.records[:: (2 if tier == "quick" and fam != "shapes" else 1)]]
    for rel, text in corpus.repo_samples(kinds=("invalid",)):
        inputs.append({"src": text, "fault_line": 0, "origin": "sample:" + rel})
    out, seen = [], set()
    for rec in inputs:
        if rec["src"] in seen or len(rec["src"]) > 6000:
            continue
        seen.add(rec["src"])
        rec["id"] = len(out)
        out.append(rec)
    return out


# the companion file of the two-file runs uses no name that the file under test could redefine (a user class named Int replaces the
# built-in one for the whole project; a diagnostic in the companion would then rightly belong to the companion)
OTHER = "class Other99\n    def m(self) => print(\"other\")\n"


def observe(vh, inputs):
    recs = []
    for c in inputs:
        recs.append({"id": "%d/single" % c["id"], "files": [{"path": "in.mamba", "src": c["src"]}], "annotate": [False]})
        recs.append({"id": "%d/multi" % c["id"], "files": [{"path": "lib/other.mamba", "src": OTHER}, {"path": "pkg/in.mamba", "src": c["src"]}], "annotate": [False]})
    results, dead = vlib.run_vh_isolated(vh, ["transpile"], recs, chunk=600, timeout=300)
    obs, unrecognised = [], 0
    for c in inputs:
        for mode, path in (("single", "src/in.mamba"), ("multi", "src/pkg/in.mamba")):
            key = "%d/%s" % (c["id"], mode)
            if key not in results:
                continue
            run = results[key]["runs"][0]
            if run["ok"]:
                continue
            # the lines of the text: split at LF, a CR directly before the LF belongs to the line ending
            parts = c["src"].split("\n")
            lines = [(l[:-1] if l.endswith("\r") else l) for l in parts[:-1]] + ([parts[-1]] if parts[-1] != "" else [])
            diags = []
            for e in run["errs"]:
                d = abstract(e)
                if d is None:
                    unrecognised += 1
                    continue
                diags.append(d)
            if not diags and run["errs"]:
                continue        # nothing recognised: counted, not judged
            olines = OTHER.split("\n")[:-1]
            others = [{"path": "src/lib/other.mamba", "lines": olines, "lens": [len(l.encode()) for l in olines]}] if mode == "multi" else []
            obs.append({"id": key, "src": {"path": path, "lines": lines, "lens": [len(l.encode()) for l in lines]}, "others": others, "diags": diags,
                        "fault_line": c["fault_line"], "panic": bool(run.get("panic"))})
    return obs, results, unrecognised


def explain(o, inp, verdict, errs):
    if verdict == "violation:position-outside-the-file":
        src = o["src"]
        outside = [d for d in o["diags"] if d["has_pos"] and not (1 <= d["line"] <= len(src["lines"]) and 1 <= d["col"] <= src["lens"][d["line"] - 1] + 1)]
        # the end-of-input token sits one column behind the end of the last token (pinned by the lexer's own tests)
        def at_eof(d):
            last = max([i + 1 for i, l in enumerate(src["lines"]) if l.strip()] or [1])
            return d["line"] == last and 1 <= last <= len(src["lines"]) and d["col"] == len(src["lines"][last - 1].rstrip(" ").encode()) + 2
        if outside and all(at_eof(d) for d in outside):
            return "KF-C19-1"
        if outside and all(d["line"] == 0 and d["col"] == 0 for d in outside) and re.search(r'"[^"]*\{[^}]*\}', inp["src"]):
            return "KF-C19-2"
    if (verdict == "violation:no-position-on-the-fault-line" and inp["origin"].startswith("inject-swap:") and errs
            and re.search(r"Type 'Union\[[^']*\]' is undefined", errs[0]) and re.search(r"\[[^\]]*\"zq\"", inp["src"].split("\n")[inp["fault_line"] - 1])):
        return "KF-C19-3"
    # the swapped literal is the whole value of an UNANNOTATED definition: the line is valid by itself, the conflict is reported where the
    # variable is first used at its old type (that line is marked; the definition line is quoted as context only)
    if verdict == "violation:no-position-on-the-fault-line" and inp["origin"].startswith("inject-swap:") and errs:
        m = re.match(r'^\s*def (?:fin )?(\w+) := "zq"\s*$', inp["src"].split("\n")[inp["fault_line"] - 1])
        marked = [n for d in o["diags"] for n in d.get("marked", [])]
        if m and marked and all(n > inp["fault_line"] for n in marked) and all(re.search(r"\b%s\b" % re.escape(m.group(1)), o["src"]["lines"][n - 1]) for n in marked):
            return "KF-C19-4"
    return None


def run(tier):
    chk = vlib.Check(PROP, tier)
    vh = vlib.build_harness()
    inputs = gather(chk, tier, vh)
    obs, results, unrec = observe(vh, inputs)
    verdicts, states, trans = vlib.judge("DiagJudge", "DiagJudge.cfg", obs, chunk=25000, xss="512m")
    chk.states += states
    chk.transitions += trans
    chk.cmds.append("tlc DiagJudge.tla (TRACE=<abstracted diagnostics of every rejected input>)")
    if len(verdicts) != len(obs):
        raise vlib.ToolError("judge returned %d verdicts for %d observations" % (len(verdicts), len(obs)))
    by = {c["id"]: c for c in inputs}
    ob = {o["id"]: o for o in obs}
    counts = {}
    for v in verdicts:
        inp = by[int(v["id"].split("/")[0])]
        o = ob[v["id"]]
        chk.evaluations += 1
        chk.traces += 1
        fam = inp["origin"].split(":")[0]
        counts["%s/%s" % (fam, v["v"])] = counts.get("%s/%s" % (fam, v["v"]), 0) + 1
        if v["v"] == "ok":
            chk.nontriv(inp["src"])
            if len(chk.samples) < 3 and inp["fault_line"] and len(inp["src"]) < 400:
                chk.sample({"input": inp["src"], "fault_line": inp["fault_line"], "diagnostics": o["diags"][:2], "verdict": "ok"})
            continue
        errs = results[v["id"]]["runs"][0]["errs"]
        fid = explain(o, inp, v["v"], errs)
        if fid and fid in chk.kf:
            chk.known(fid)
            continue
        chk.violation({"input": inp["src"], "origin": inp["origin"], "mode": v["id"].split("/")[1], "fault_line": inp["fault_line"], "clause": v["v"],
                       "diagnostics": o["diags"], "rendered": errs[:3],
                       "what": "%s (%s): %s" % (v["v"], inp["origin"], (errs[0].splitlines()[0] if errs else "")[:100])},
                      key=v["v"] + "|" + inp["origin"].split(":")[0] + "|" + (errs[0].splitlines()[0][:40] if errs else ""))
    chk.extra["verdict_counts"] = counts
    chk.extra["unrecognised_renderings"] = unrec
    chk.exhaustive = False
    chk.rule = ("fault injection (lexical / syntactic / type / undefined-name fault at every statement line of every accepted C01 program), rejected "
                "programs of the C05-C09 grids, token soup, shapes and inheritance digraphs of spec/PipelineInputs.tla, the repository's invalid "
                "samples; each alone and as one file of a two-file project; non-trivial = distinct rejected inputs whose diagnostics were judged")
    chk.assumptions = ["file, position and quoted lines are read off the rendering ('──→ path:line:col', 'NNNN | text'); unrecognised renderings are counted, not judged",
                       "columns are compared in bytes (the lexer's unit)"]
    return chk.finish()


def replay(path):
    payload = json.load(open(path))
    vh = vlib.build_harness()
    obs, results, _ = observe(vh, [{"id": 0, "src": payload["input"], "fault_line": payload.get("fault_line", 0)}])
    verdicts, _, _ = vlib.judge("DiagJudge", "DiagJudge.cfg", obs)
    bad = [v for v in verdicts if v["v"] != "ok"]
    for v in verdicts:
        print(v)
    if bad:
        print("VIOLATION property=%s replay=%s" % (PROP, path))
        return 1
    print("REPLAY ok")
    return 0
