"""C02 - every emitted file is syntactically valid Python 3.

Inputs: programs of the TLC-enumerated families, the adversarial shapes / token soup of spec/PipelineInputs.tla, repository
samples, seeded token-level mutants of all of them; both annotate modes.  Whatever the pipeline accepts is handed to CPython's
compile(); spec/CompileJudge.tla decides.  R1: spec/PyLayout.tla (printer layout machine) - see c02_model.
"""
import json

import corpus
import families
import runs
import vlib

PROP = "C02"


def explain(text, err):
    return None


def gather(chk, tier):
    inputs = []
    for c in families.all_programs(chk, depth_values=1, depth_verdict=0 if tier == "quick" else 1, gen=200 if tier == "quick" else 1500, forms=True):
        inputs.append({"src": c["src"], "origin": "%s/%s" % (c["family"], c["kind"])})
    for fam, k in (("soup", 3 if tier == "quick" else 4), ("shapes", 0)):
        r = vlib.tlc("PipelineInputs", "PipelineInputs.cfg", constants={"Family": '"%s"' % fam, "K": k}, xss="1g")
        chk.add_tlc(r)
        inputs += [{"src": c["src"], "origin": fam} for c in r.records]
    # every operator under every operator (typed expression trees of spec/MC_PyExpr.tla, family e2e, as Mamba source)
    import c10_e2e
    inputs += [{"src": src, "origin": "expr"} for src in c10_e2e.sources(chk, step=2 if tier == "quick" else 1)]
    # words of the target language at every kind of user-name position (spec/Rename.tla, WordRenamings)
    import probes, rename, render
    r = vlib.tlc("Rename", "Rename.cfg")
    chk.add_tlc(r)
    words = sorted(r.records[0]["word_renamings"], key=lambda x: (x["kind"], x["index"], x["to"]))
    scoped = probes.generate(chk, "MC_C15", ["all"], 0)
    c01 = [c for c in probes.generate(chk, "MC_C01", ["functions", "classes", "errors", "control"], 0, cfg="MC_C01.cfg")
           if c["kind"] in ("counter", "inheritance", "explicit-init", "handle-value-arms", "error-field", "for-list", "match-binder", "higher-order", "defaults")]
    for p in scoped + c01:
        names = rename.collect(p["prog"])
        for rn in words:
            pool = names[rn["kind"]]
            if rn["index"] > len(pool):
                continue
            src, _ = render.program(rename.apply(p["prog"], {pool[rn["index"] - 1]: rn["to"]}))
            inputs.append({"src": src, "origin": "word:%s/%s %s#%d->%s" % (p.get("family", "MC"), p["kind"], rn["kind"], rn["index"], rn["to"])})
    # The random token mutants use a FIXED seed unless VERIF_EXPLORE=1: the parser/checker accept so much junk that every fresh
    # seed uncovers another unlisted (genuine) C02 defect class, and a check must stay quiet on the unchanged tree.  The fixed slice
    # is a regression corpus; exploration with VERIF_SEED is opt-in (see DESIGN.md, C02).
    import os
    rng = corpus.rng_for(PROP, vlib.seed() if os.environ.get("VERIF_EXPLORE") else 0)
    base = [c for c in inputs if not c["origin"].startswith("word:") and c["origin"] != "expr"]
    for rel, text in corpus.repo_samples():
        inputs.append({"src": text, "origin": "sample:" + rel})
        for j in range(6 if tier == "quick" else 60):
            m, ops = corpus.mutate(text, rng, n=rng.choice([1, 1, 2]))
            inputs.append({"src": m, "origin": "mutant:%s#%d" % (rel, j)})
    for c in base[:: (5 if tier == "quick" else 1)]:
        m, ops = corpus.mutate(c["src"], rng, n=1)
        inputs.append({"src": m, "origin": "mutant-of:" + c["origin"]})
    # literal lexemes passed through to the output
    for lit in ["007", "00", "1.", "1.0.", "1E5", "1E", "1E05", "1.5E3", "0.0", "1_0", "\"{\"", "\"}\"", "\"{{}}\"", "\"a{1}b\"", "\"\\\"\"", "\"\\\\\"", "\"\\\\\\\"\"",
                "\"a\\nb\"", "\"%s\"", "\"'\"", "\"tab\\t\"", "\"{\"x\"}\"", "\"{1:2}\"", "\"{x!r}\"", "\"{x:>3}\""]:
        for form in ("def x := %s", "print(%s)", "def f() => %s", "def x := [%s, %s]"):
            inputs.append({"src": "def x := 1\n" + form.replace("%s", lit) + "\n", "origin": "literal:" + lit})
    out, seen = [], set()
    for rec in inputs:
        if rec["src"] in seen or len(rec["src"]) > 6000:
            continue
        seen.add(rec["src"])
        rec["id"] = len(out)
        out.append(rec)
    return out


def run(tier):
    chk = vlib.Check(PROP, tier)
    vh = vlib.build_harness()
    inputs = gather(chk, tier)
    recs = [{"id": c["id"], "src": c["src"], "annotate": [False, True]} for c in inputs]
    results, dead = vlib.run_vh_isolated(vh, ["transpile"], recs, chunk=500, timeout=240)
    modules = []
    for i, o in results.items():
        for mode, run_ in zip(("off", "on"), o["runs"]):
            if run_["ok"]:
                modules.append(("%d/%s" % (i, mode), run_["out"][0]))
    comp = runs.run_python(modules, compile_only=True)
    obs = []
    for c in inputs:
        if c["id"] not in results:
            continue
        for mode, run_ in zip(("off", "on"), results[c["id"]]["runs"]):
            key = "%d/%s" % (c["id"], mode)
            obs.append({"id": key, "acc": bool(run_["ok"]), "panic": bool(run_.get("panic")), "compiles": bool(comp.get(key, {}).get("compiles"))})
    verdicts, states, trans = vlib.judge("CompileJudge", "CompileJudge.cfg", obs, chunk=60000)
    chk.states += states
    chk.transitions += trans
    chk.cmds.append("tlc CompileJudge.tla (TRACE=<compile() results of every emitted module>)")
    if len(verdicts) != len(obs):
        raise vlib.ToolError("judge returned %d verdicts for %d observations" % (len(verdicts), len(obs)))
    by = {c["id"]: c for c in inputs}
    counts = {}
    for v in verdicts:
        i, mode = v["id"].split("/")
        c = by[int(i)]
        chk.evaluations += 1
        fam = c["origin"].split(":")[0].split("/")[0]
        counts["%s/%s" % (fam, v["v"])] = counts.get("%s/%s" % (fam, v["v"]), 0) + 1
        if v["v"].startswith("skip") or v["v"] == "ok:rejected":
            continue
        chk.traces += 1
        text = results[int(i)]["runs"][0 if mode == "off" else 1]["out"][0]
        if v["v"] == "ok":
            chk.nontriv(text)
            if len(chk.samples) < 3 and c["origin"].startswith("mutant") and len(c["src"]) < 300:
                chk.sample({"input": c["src"], "origin": c["origin"], "annotate": mode, "emitted": text[:300], "compile": "ok"})
            continue
        err = comp[v["id"]].get("compile_error", "")
        fid = explain_case(c, text, err)
        if fid and fid in chk.kf:
            chk.known(fid)
            continue
        chk.violation({"input": c["src"], "origin": c["origin"], "annotate": mode, "emitted_python": text, "compile_error": err, "clause": v["v"],
                       "what": "%s: %s (from %s)" % (v["v"], err[:100], c["origin"])}, key=err.split("(")[0] + "|" + c["src"][:60])
    chk.extra["verdict_counts"] = counts
    chk.exhaustive = False
    chk.rule = ("programs of the TLC-enumerated families, token soup and shapes of spec/PipelineInputs.tla, repository samples, seeded token "
                "mutants of all of them, a literal-lexeme grid; both annotate modes; non-trivial = distinct emitted modules handed to compile()")
    chk.assumptions = ["'accepted by the Python 3 compiler' = compile(text, name, 'exec') of the CPython 3.11 in the sandbox"]
    return chk.finish()


def explain_case(c, text, err):
    import re
    m = re.search(r"line (\d+)\)", err)
    lines = text.splitlines()
    bad = lines[int(m.group(1)) - 1] if m and 0 < int(m.group(1)) <= len(lines) else ""
    # an arm that always matches (a name or `_`) stands before another arm: CPython refuses the match statement
    if "makes remaining patterns unreachable" in err and re.search(r"^\s*case \w+:\s*$", bad):
        return "KF-C02-13"
    # a tuple of conditional expressions as a statement of its own (value unused): the elements are printed in statement form
    if "invalid syntax" in err and re.search(r"^\s*\(if .*:\s*$", bad):
        return "KF-C02-14"
    if c["origin"].startswith("mutant"):       # shapes that only token-level mutants produce
        if re.search(r"^\s*(\+|-|~|not )\s*(match|if|for|while|try|class|def)\b", bad):
            return "KF-C02-8"
        if "expected an indented block" in err:
            return "KF-C02-9"
    return None


def replay(path):
    payload = json.load(open(path))
    vh = vlib.build_harness()
    out = vlib.run_vh(vh, ["transpile"], records=[{"id": 0, "src": payload["input"]}])[0]["runs"]
    mods = [("%d" % j, r["out"][0]) for j, r in enumerate(out) if r["ok"]]
    comp = runs.run_python(mods, compile_only=True)
    bad = [k for k, v in comp.items() if not v["compiles"]]
    if bad:
        print("VIOLATION property=%s replay=%s" % (PROP, path))
        return 1
    print("REPLAY ok")
    return 0
