"""C04 - accepted programs do not go wrong (no TypeError / AttributeError / NameError / UnboundLocalError at run time).

Programs: every program of the families of C01 and C05-C09 (the latter are the type-changing single-point edits of
conforming programs: operands, arguments, initialisers, receivers, return values replaced by another type, arguments dropped
or added, uses renamed / moved before the definition).  Whatever the real checker ACCEPTS is executed by CPython in both
annotate modes; spec/RunJudge.tla decides C04 on CPython's verdict alone.  The reference semantics' own "goes wrong" status
is compared as drift (the static rules of the spec are sound w.r.t. the dynamic semantics).
"""
import json

import c01
import families
import runs
import vlib

PROP = "C04"


def explain(case, verdict, o, model):
    n = case.get("note") or {}
    pat = n.get("pattern") if isinstance(n, dict) else None
    exc = o["off"]["exc"] or o["on"]["exc"]
    if exc == "NameError" and pat in ("call-before-function-definition", "construct-before-class-definition"):
        return "KF-C04-1"
    if exc == "AttributeError" and case["kind"] == "error-field-passed-to-parent":
        return "KF-C04-2"
    if exc == "TypeError" and case["kind"] == "form-with-no-protocol":
        return "KF-C04-5"
    if exc == "TypeError" and case["kind"] == "operand" and n.get("op") == "+" and n.get("left") == "Str" and n.get("right") in ("Int", "Float", "Bool"):
        return "KF-C04-3"
    return None


def run(tier):
    chk = vlib.Check(PROP, tier)
    vh = vlib.build_harness()
    cases = families.all_programs(chk, depth_values=1, depth_verdict=0 if tier == "quick" else 1, gen=200 if tier == "quick" else 1500, forms=True)
    obs = runs.observe(vh, cases)
    verdicts = runs.judge_runs(chk, cases, obs)
    c01.classify(chk, PROP, "c04", cases, obs, verdicts, explain)
    accepted = sum(1 for c in cases if obs[c["id"]]["off"]["acc"] or obs[c["id"]]["on"]["acc"])
    model_wrong_but_accepted = sum(1 for c in cases if verdicts[c["id"]]["model"]["cat"] == "wrong" and obs[c["id"]]["off"]["acc"])
    chk.extra["accepted_and_executed"] = accepted
    chk.extra["model_agreement"] = {"accepted_programs_the_reference_semantics_says_go_wrong": model_wrong_but_accepted}
    chk.exhaustive = True
    chk.rule = ("all programs of spec/MC_C01.tla and of the single-point-edit grids of spec/MC_C05..C09.tla; every accepted one is executed "
                "(annotate off and on); non-trivial = distinct accepted programs that were executed")
    chk.assumptions = ["only CPython's verdict on the emitted code is decisive", "programs terminate by construction (bounded ranges, recursion depth <= 5)"]
    return chk.finish()


def replay(path):
    payload = json.load(open(path))
    vh = vlib.build_harness()
    o = runs.observe(vh, [{"id": 0, "src": payload["program"]}])[0]
    bad = any(o[m]["acc"] and o[m]["exc"] in ("TypeError", "AttributeError", "NameError", "UnboundLocalError") for m in ("off", "on"))
    print({m: (o[m]["acc"], o[m]["exc"]) for m in ("off", "on")})
    if bad:
        print("VIOLATION property=%s replay=%s" % (PROP, path))
        return 1
    print("REPLAY ok")
    return 0
